"""One integer decides everything: named PRNG streams derived from a seed by SHA-256."""
import hashlib
import random


def derive(seed, *names):
    h = hashlib.sha256(("%d/" % int(seed) + "/".join(str(n) for n in names)).encode()).digest()
    return int.from_bytes(h[:8], "big")


def stream(seed, *names):
    return random.Random(derive(seed, *names))
