"""Pool of zygote workers (fresh interpreters, PYTHONHASHSEED fixed) driven over pipes."""
import json
import os
import queue
import subprocess
import sys
import threading
import time

VERIF = os.path.dirname(os.path.dirname(os.path.abspath(__file__)))
PY = os.environ.get("VERIF_PYTHON", "/venv/bin/python")


def _find_setarch():
    import platform
    import shutil as _sh

    exe = _sh.which("setarch")
    if not exe or os.environ.get("VERIF_ASLR") == "1":
        return None
    cmd = [exe, platform.machine(), "-R"]
    try:
        if subprocess.run(cmd + ["true"], capture_output=True, timeout=20).returncode == 0:
            return cmd
    except Exception:  # noqa: BLE001
        pass
    return None


_SETARCH = _find_setarch()


class Worker:
    def __init__(self, hashseed="0", repo=None):
        env = dict(os.environ)
        env["PYTHONHASHSEED"] = str(hashseed)
        env["INFOCF_LOGLEVEL"] = "ERROR"
        env["PYTHONDONTWRITEBYTECODE"] = "1"
        if repo:
            env["VERIF_REPO"] = repo
        cmd = [PY, "-u", os.path.join(VERIF, "sim", "zygote.py")]
        if _SETARCH:
            # no address-space randomisation: object addresses (id()) are part of the repeatable execution
            cmd = _SETARCH + cmd
        self.p = subprocess.Popen(
            cmd,
            stdin=subprocess.PIPE,
            stdout=subprocess.PIPE,
            stderr=subprocess.DEVNULL,
            env=env,
            cwd=VERIF,
            text=True,
            bufsize=1,
        )
        line = self.p.stdout.readline()
        if not line:
            raise RuntimeError("zygote failed to start")
        self.info = json.loads(line)

    def run(self, job):
        # the envelope that reaches the scenario child is a function of (engine, func, doc) only: the
        # same document always yields the same bytes and therefore the same child, whoever asks
        wire = {"engine": job["engine"], "func": job["func"], "doc": job["doc"], "wall_cap": 180 if job.get("func") in ("execute", "trace") else job.get("wall_cap", 180)}
        try:
            # (no key sorting: the order of e.g. a rank table is part of a scenario)
            self.p.stdin.write(json.dumps(wire) + "\n")
            self.p.stdin.flush()
            line = self.p.stdout.readline()
        except (BrokenPipeError, OSError):
            line = ""
        if not line:
            return {"id": job.get("id"), "result": {"harness_error": "zygote died"}}
        rep = json.loads(line)
        rep["id"] = job.get("id")
        return rep

    def close(self):
        try:
            self.p.stdin.write(json.dumps({"quit": True}) + "\n")
            self.p.stdin.flush()
            self.p.stdin.close()
        except Exception:  # noqa: BLE001
            pass
        try:
            self.p.wait(timeout=5)
        except Exception:  # noqa: BLE001
            self.p.kill()


class Pool:
    def __init__(self, n=None, hashseed="0", repo=None):
        self.n = n or int(os.environ.get("VERIF_WORKERS", os.cpu_count() or 4))
        self.hashseed = hashseed
        self.repo = repo
        self.workers = []
        errs = []

        def mk():
            try:
                self.workers.append(Worker(hashseed, repo))
            except Exception as e:  # noqa: BLE001
                errs.append(e)

        ts = [threading.Thread(target=mk) for _ in range(self.n)]
        [t.start() for t in ts]
        [t.join() for t in ts]
        if errs or not self.workers:
            raise RuntimeError("cannot start zygotes: %s" % errs)

    def imap(self, jobs, budget_s=None):
        """Run jobs (iterable of dicts) on the workers; yields (job, result) as they finish.

        When budget_s is given, no new job is started after that wall time.
        """
        q = queue.Queue()
        it = iter(jobs)
        lock = threading.Lock()
        t0 = time.monotonic()
        done = object()

        def loop(w):
            while True:
                with lock:
                    if budget_s is not None and time.monotonic() - t0 > budget_s:
                        job = None
                    else:
                        job = next(it, None)
                if job is None:
                    break
                rep = w.run(job)
                if rep["result"].get("harness_error") == "zygote died":
                    # replace the worker so that the batch can go on
                    try:
                        w.close()
                        w.__init__(self.hashseed, self.repo)
                    except Exception:  # noqa: BLE001
                        q.put((job, rep["result"]))
                        break
                q.put((job, rep["result"]))
            q.put(done)

        ts = [threading.Thread(target=loop, args=(w,), daemon=True) for w in self.workers]
        [t.start() for t in ts]
        alive = len(ts)
        while alive:
            item = q.get()
            if item is done:
                alive -= 1
                continue
            yield item

    def run_one(self, job):
        return self.workers[0].run(job)["result"]

    def close(self):
        for w in self.workers:
            w.close()

    def __enter__(self):
        return self

    def __exit__(self, *a):
        self.close()
