"""Generic check driver: seeded search over scenarios, shrinking, replay files, known findings,
evidence.  Engines provide generation, execution (in zygote forks) and shrink candidates."""
import hashlib
import importlib
import json
import os
import sys
import time

from sim.pool import Pool

VERIF = os.path.dirname(os.path.dirname(os.path.abspath(__file__)))
REPLAYS = os.environ.get("VERIF_REPLAY_DIR") or os.path.join(VERIF, "replays")
EVIDENCE = os.environ.get("VERIF_EVIDENCE_DIR") or os.path.join(VERIF, "evidence")
FIXED_REPLAYS = os.path.join(VERIF, "replays", "fixed")
KNOWN = os.path.join(VERIF, "known_findings.json")

ENGINE_OF = {"C13": "mgrsim", "C14": "mgrsim", "C16": "ocfsim", "C20": "ocfsim", "C19": "revsim"}
LEVEL_OF = {"C13": "exploration", "C14": "fault_enumeration", "C16": "exploration", "C19": "exploration", "C20": "fault_enumeration"}


def engine_mod(prop):
    return importlib.import_module("engines." + ENGINE_OF[prop])


def log(*a):
    try:
        print(*a, flush=True)
    except BrokenPipeError:
        pass


# --------------------------------------------------------------------------------------
# known findings
# --------------------------------------------------------------------------------------
def load_known():
    try:
        with open(KNOWN) as f:
            return json.load(f)
    except FileNotFoundError:
        return {"findings": [], "fixed": []}


def match_known(known, prop, features):
    """An entry matches when every key of its ``match`` dict agrees with the features of the
    (minimised) violation: scalars must be equal, lists must be subsets of the feature list."""
    for e in known.get("findings", []):
        if e.get("property") != prop:
            continue
        ok = True
        for k, want in (e.get("match") or {}).items():
            got = features.get(k)
            if isinstance(want, list):
                if not isinstance(got, list) or not set(want) >= set(got) or not got:
                    ok = False
            elif got != want:
                ok = False
            if not ok:
                break
        if ok:
            return e
    return None


# --------------------------------------------------------------------------------------
# shrinking (delta debugging over the scenario document, in fresh children)
# --------------------------------------------------------------------------------------
def violation_classes(res):
    return [v["class"] for v in res.get("violations", [])]


def shrink(pool, eng, doc, vclass, max_exec=400, max_wall=150.0):
    """Greedy fixed-point reduction while the same violation class persists."""
    t0 = time.monotonic()
    execs = 0
    cur = doc
    width = max(1, min(8, len(pool.workers)))
    improved = True
    while improved and execs < max_exec and time.monotonic() - t0 < max_wall:
        improved = False
        cands = list(eng.shrink_candidates(cur))
        i = 0
        while i < len(cands) and execs < max_exec and time.monotonic() - t0 < max_wall:
            batch = cands[i : i + width]
            jobs = [{"id": j, "engine": eng.NAME, "func": "execute", "doc": c, "wall_cap": 90} for j, c in enumerate(batch)]
            results = {}
            for job, res in pool.imap(jobs):
                results[job["id"]] = res
            execs += len(batch)
            hit = None
            for j in range(len(batch)):
                res = results.get(j, {})
                if "harness_error" in res:
                    continue
                if vclass in violation_classes(res):
                    hit = res["doc"]
                    break
            if hit is not None:
                cur = hit
                improved = True
                break
            i += width
    return cur, execs


def write_replay(prop, doc, vclass, digest, tag):
    os.makedirs(REPLAYS, exist_ok=True)
    name = "%s-%s-%s.json" % (prop, doc.get("seed", 0), tag)
    path = os.path.join(REPLAYS, name)
    with open(path, "w") as f:
        # (keys are not sorted: the order of a rank table or of a batch is part of the scenario)
        json.dump({"property": prop, "engine": ENGINE_OF[prop], "expect": {"class": vclass, "digest": digest}, "doc": doc}, f, indent=1)
    return path


def replay(path, pool=None):
    with open(path) as f:
        rp = json.load(f)
    own = pool is None
    pool = pool or Pool(1)
    try:
        eng = importlib.import_module("engines." + rp["engine"])
        res = pool.run_one({"id": 0, "engine": eng.NAME, "func": "execute", "doc": rp["doc"], "wall_cap": 120})
    finally:
        if own:
            pool.close()
    if "harness_error" in res:
        log("HARNESS-ERROR replay: %s" % res["harness_error"])
        return 2
    classes = violation_classes(res)
    exp = rp["expect"]
    if exp["class"] in classes:
        if exp.get("digest") and res["digest"] != exp["digest"]:
            log("HARNESS-ERROR nondeterministic replay: violation reproduced but trace digest differs (%s != %s)" % (res["digest"][:16], exp["digest"][:16]))
            return 2
        log("VIOLATION property=%s replay=%s" % (rp["property"], path))
        for v in res["violations"][:5]:
            log("  %s op=%s row=%s %s" % (v["class"], v.get("op"), v.get("row"), json.dumps(v.get("detail"), default=str)[:400]))
        return 1
    if classes:
        log("replay produced different violation classes: %s (expected %s)" % (sorted(set(classes)), exp["class"]))
        log("VIOLATION property=%s replay=%s" % (rp["property"], path))
        return 1
    log("replay of %s: no violation (expected class %s no longer occurs)" % (path, exp["class"]))
    return 0


# --------------------------------------------------------------------------------------
# the check
# --------------------------------------------------------------------------------------
def run_check(prop, tier, verif_seed, workers=None, n_override=None, repo=None, quiet=False):
    eng = engine_mod(prop)
    spec = eng.SPECS[prop]
    t_start = time.monotonic()
    n = n_override or spec["n_" + tier]
    known = load_known()
    stats = {
        "evaluations": 0,
        "harness_errors": [],
        "fired": {},
        "probes": {},
        "vtime": 0.0,
        "state_keys": set(),
        "nontrivial_hashes": set(),
        "classes": {},
        "samples": [],
        "viol": [],
        "per_class": {},
    }
    digests = {}

    def absorb(doc, res):
        stats["evaluations"] += 1
        for k, v in (res.get("fired") or {}).items():
            stats["fired"][k] = stats["fired"].get(k, 0) + v
        for k, v in (res.get("probes") or {}).items():
            if not k.startswith("_"):
                stats["probes"][k] = stats["probes"].get(k, 0) + v
        stats["vtime"] += res.get("vtime") or 0.0
        for k in res.get("state_keys") or []:
            stats["state_keys"].add(k)
        cls = (doc or {}).get("class", "?")
        stats["per_class"][cls] = stats["per_class"].get(cls, 0) + 1
        if res.get("nontrivial"):
            stats["nontrivial_hashes"].add(eng.canonical(res.get("doc") or doc))
        if res.get("violations"):
            res["job_doc"] = doc
            stats["viol"].append(res)

    with Pool(workers, repo=repo) as pool:
        # ---- regression replays of repaired defects: a fixed entry suppresses nothing ---
        regress = []
        fixed_dir = FIXED_REPLAYS
        if os.path.isdir(fixed_dir):
            for fn in sorted(os.listdir(fixed_dir)):
                if fn.startswith(prop + "-") and fn.endswith(".json"):
                    with open(os.path.join(fixed_dir, fn)) as f:
                        rp = json.load(f)
                    rr = pool.run_one({"id": fn, "engine": eng.NAME, "func": "execute", "doc": rp["doc"], "wall_cap": 120})
                    stats["probes"]["fixed_replays_run"] = stats["probes"].get("fixed_replays_run", 0) + 1
                    if "harness_error" in rr:
                        stats["harness_errors"].append((fn, "fixed replay: " + rr["harness_error"], rr.get("tb", "")))
                    elif rr.get("violations"):
                        regress.append((os.path.join(fixed_dir, fn), rr["violations"][0]))
        jobs = list(eng.jobs(prop, verif_seed, n, tier))
        for job, res in pool.imap(jobs):
            if "harness_error" in res:
                stats["harness_errors"].append((job["id"], res["harness_error"], res.get("tb", "")))
                continue
            if "sweep_results" in res:
                stats["probes"]["sweep_workloads"] = stats["probes"].get("sweep_workloads", 0) + 1
                stats["probes"]["sweep_positions"] = stats["probes"].get("sweep_positions", 0) + res["positions"]
                for r in res["sweep_results"]:
                    if "harness_error" in r and r["harness_error"]:
                        stats["harness_errors"].append((job["id"], r["harness_error"], ""))
                        continue
                    absorb(r.get("doc"), r)
                continue
            absorb(job["doc"], res)
            digests[job["id"]] = res["digest"]
            if len(stats["samples"]) < 3 and res.get("nontrivial"):
                stats["samples"].append(eng.sample_view(res))

        # ---- determinism spot check: re-run a sample on other workers ---------------
        recheck = [j for j in jobs if j["func"] == "execute" and j["id"] in digests][: spec.get("recheck", 8)]
        nondet = []
        if recheck:
            rejobs = [dict(j) for j in reversed(recheck)]
            for job, res in pool.imap(rejobs):
                if "harness_error" in res:
                    stats["harness_errors"].append((job["id"], "recheck: " + res["harness_error"], ""))
                elif res["digest"] != digests[job["id"]]:
                    nondet.append(job["id"])
        stats["probes"]["determinism_rechecks"] = len(recheck)

        # ---- violations: group by class, shrink, report -------------------------------
        reported = []
        exit_code = 0
        by_class = {}
        for res in sorted(stats["viol"], key=lambda r: (r["doc"].get("idx", 0), json.dumps(r["doc"].get("faults"), sort_keys=True))):
            for c in sorted(set(violation_classes(res))):
                by_class.setdefault(c, []).append(res)
        known_hits = {}
        for vclass in sorted(by_class):
            group = by_class[vclass]
            stats["classes"][vclass] = len(group)
            # Shrink a few instances per class.  Instances whose raw features already fall outside
            # every known finding go first, so that a new defect cannot hide behind a known one
            # of the same violation class.
            def raw_known(res):
                v = [x for x in res["violations"] if x["class"] == vclass][0]
                return match_known(known, prop, eng.features(res["doc"], v)) is not None

            fresh = [r for r in group if not raw_known(r)]
            old_ = [r for r in group if raw_known(r)]
            stats["probes"]["violations_raw_unknown"] = stats["probes"].get("violations_raw_unknown", 0) + len(fresh)
            picked = fresh[: spec.get("shrink_per_class", 3)] + old_[:2]
            for res in picked:
                small, execs = shrink(pool, eng, res["doc"], vclass, max_exec=spec.get("shrink_exec", 300), max_wall=spec.get("shrink_wall", 120.0))
                rr = pool.run_one({"id": 0, "engine": eng.NAME, "func": "execute", "doc": small, "wall_cap": 120})
                if "harness_error" in rr or vclass not in violation_classes(rr):
                    # fall back to the completed document, then to the document exactly as it was
                    # submitted (identical bytes -> identical child, object addresses included)
                    for cand in (res["doc"], res.get("job_doc")):
                        if cand is None or "sweep" in cand or "orders" in cand:
                            continue
                        small = cand
                        rr = pool.run_one({"id": 0, "engine": eng.NAME, "func": "execute", "doc": small, "wall_cap": 120})
                        if "harness_error" not in rr and vclass in violation_classes(rr):
                            break
                    if "harness_error" in rr or vclass not in violation_classes(rr):
                        stats["harness_errors"].append((small.get("idx"), "violation %s did not reproduce in a fresh child" % vclass, ""))
                        continue
                v0 = [v for v in rr["violations"] if v["class"] == vclass][0]
                feats = eng.features(rr["doc"], v0)
                entry = match_known(known, prop, feats)
                if entry is not None:
                    known_hits.setdefault(entry["id"], entry)
                    continue
                tag = hashlib.sha256((vclass + eng.canonical(rr["doc"])).encode()).hexdigest()[:10]
                path = write_replay(prop, rr["doc"], vclass, rr["digest"], tag)
                reported.append((vclass, path, v0, feats))
                exit_code = 1
        for path, v0 in regress:
            log("VIOLATION property=%s replay=%s" % (prop, path))
            log("  a repaired defect is back: class=%s detail=%s" % (v0["class"], json.dumps(v0.get("detail"), default=str)[:400]))
            exit_code = 1
        for e in known_hits.values():
            log("KNOWN-FINDING: property=%s %s" % (prop, e["what"]))
        for vclass, path, v0, feats in reported:
            log("VIOLATION property=%s replay=%s" % (prop, path))
            log("  class=%s op=%s row=%s detail=%s" % (vclass, v0.get("op"), v0.get("row"), json.dumps(v0.get("detail"), default=str)[:600]))
            log("  features=%s" % json.dumps(feats, sort_keys=True))

    wall = time.monotonic() - t_start
    # ---- reach probes: a probe stuck at zero fails the thorough check ---------------------
    unreached = []
    # (not enforced when the scenario count was overridden by hand: small batches miss rare probes)
    if n_override is None:
        for name in spec.get("must_reach", []):
            got = stats["fired"].get(name, 0) + stats["probes"].get(name, 0)
            if got == 0:
                unreached.append(name)
    harness_fail = bool(stats["harness_errors"]) or bool(nondet) or bool(unreached)
    for hid, msg, tb in stats["harness_errors"][:10]:
        log("HARNESS-ERROR scenario=%s %s" % (hid, msg))
        if tb and not quiet:
            log("   " + tb.replace("\n", "\n   ")[-1200:])
    if nondet:
        log("HARNESS-ERROR nondeterministic digests for scenarios %s" % nondet)
    if unreached:
        log("HARNESS-ERROR unreached probes: %s" % unreached)

    nworkers = workers or int(os.environ.get("VERIF_WORKERS", os.cpu_count() or 4))
    ev = {
        "property_id": prop,
        "tier": tier,
        "seed": int(verif_seed),
        "level": LEVEL_OF[prop],
        "coverage": {
            "evaluations": stats["evaluations"],
            "distinct_nontrivial": len(stats["nontrivial_hashes"]),
            "rule": spec["rule"],
            "samples": stats["samples"],
            "exhaustive": False,
            "scenario_classes": stats["per_class"],
            "faults_fired": stats["fired"],
            "probes": stats["probes"],
            "distinct_states": len(stats["state_keys"]),
            "distinct_states_measure": spec["state_measure"],
            "simulated_seconds": round(stats["vtime"], 3),
            "runs_per_hour": int(stats["evaluations"] / max(wall, 1e-6) * 3600),
            "workers": nworkers,
            "violation_classes": stats["classes"],
            "known_findings_hit": sorted(known_hits),
            "harness_errors": len(stats["harness_errors"]),
            "components": spec["components"],
        },
        "assumptions": spec["assumptions"],
        "wall_s": round(wall, 2),
        "violations": len(reported) + len(regress),
    }
    os.makedirs(EVIDENCE, exist_ok=True)
    with open(os.path.join(EVIDENCE, "%s.json" % prop), "w") as f:
        json.dump(ev, f, indent=1, sort_keys=True, default=str)
    log(
        "%s %s seed=%s: %d scenarios (%d distinct non-trivial), %d distinct states, %.1f virtual s, faults fired %s, %.1fs wall"
        % (prop, tier, verif_seed, stats["evaluations"], len(stats["nontrivial_hashes"]), len(stats["state_keys"]), stats["vtime"], json.dumps(stats["fired"], sort_keys=True), wall)
    )
    if exit_code == 1:
        return 1
    if harness_fail:
        return 2
    return 0
