"""Seams of the deterministic simulator.

Everything in this file is installed *from outside* into a pristine interpreter
(the zygote) BEFORE ``inference.*`` is imported:

* virtual clock bound to time.perf_counter / perf_counter_ns / time / monotonic
* wrappers around the solver entry points (z3.Solver.check, z3.Optimize.check/set/model,
  RC2.compute) = "the call takes d virtual ms"; counting observation points; injecting
  ``unknown`` on optimizers that had a time limit set
* seeded ``Conditional.__hash__`` (identity hashes otherwise depend on ASLR)

All wrappers are pass-through while no simulation is active (``SIM is None``).
The real functions stay reachable through ``REAL`` for the harness itself.
"""
import hashlib
import os
import sys
import time as _time

REAL = {
    "perf_counter": _time.perf_counter,
    "perf_counter_ns": _time.perf_counter_ns,
    "time": _time.time,
    "monotonic": _time.monotonic,
}

REPO_PREFIX = os.path.realpath(os.environ.get("VERIF_REPO", "/repo")) + os.sep

SIM = None  # the active simulation context (set per scenario child)


class HarnessError(Exception):
    """Something went wrong in the harness itself (never a verdict)."""


class WorkerCrash(BaseException):
    """Raised inside a simulated worker process to model an external kill."""


# --------------------------------------------------------------------------------------
# simulation context
# --------------------------------------------------------------------------------------
class Sim:
    """Per-scenario simulation context: virtual clock, counters, faults, trace."""

    DEFAULT_SVC = {  # virtual seconds per call
        "z3.check": 0.0002,
        "opt.check": 0.002,
        "rc2.compute": 0.001,
    }

    def __init__(self, seed, knobs=None):
        self.seed = seed
        self.knobs = knobs or {}
        if self.knobs.get("loglevel"):
            # the library's documented default log level is INFO (records are created, the harness's
            # handlers stay at ERROR so nothing is printed); a scenario lives in its own fork
            import logging

            logging.getLogger().setLevel(getattr(logging, str(self.knobs["loglevel"]), logging.ERROR))
        self.now = 0.0  # virtual seconds
        self.reads = 0
        self.active = False
        self.phase = "idle"
        self.op = -1  # current operation index
        self.worker = None  # None in the scenario process, j in simulated worker j
        self.counts = {}  # (op, worker, site) -> n
        self.faults = {}  # (op, worker, site, k) -> fault dict
        self.fired = {}  # fault kind -> count
        self.expiry_sites = set()
        self.unknown_sites = set()
        self.probes = {}
        self.sha = hashlib.sha256()
        self.addr_sha = hashlib.sha256()
        self.n_events = 0
        self.tail = []  # last events, for diagnosis
        self.keep_tail = 60
        self.full_trace = None  # list when tracing in full
        self.step_cap = int(self.knobs.get("step_cap", 50000))
        self.svc_scale = float(self.knobs.get("svc_scale", 1.0))
        self.hash_rng = None
        self.vtime_total = 0.0
        self.on_crash = None  # set inside a simulated worker: report and _exit at once
        self.timers = []  # virtual threading.Timer objects that were started and not yet fired/cancelled

    # -- trace ---------------------------------------------------------------------
    def trace(self, *ev):
        s = repr(ev)
        self.sha.update(s.encode())
        self.n_events += 1
        if self.full_trace is not None:
            self.full_trace.append(s)
        t = self.tail
        t.append(s)
        if len(t) > self.keep_tail:
            del t[0]
        if self.n_events > self.step_cap * 4:
            raise HarnessError("event cap exceeded")

    def digest(self):
        return self.sha.hexdigest()

    def trace_addr(self, *ev):
        """Object addresses: repeatable for a fixed PYTHONHASHSEED only, hence a digest of their own."""
        self.addr_sha.update(repr(ev).encode())

    def addr_digest(self):
        return self.addr_sha.hexdigest()

    def probe(self, name, n=1):
        self.probes[name] = self.probes.get(name, 0) + n

    # -- phases / ops ----------------------------------------------------------------
    def begin_phase(self, phase, faults=()):
        self.phase = phase
        self.counts = {}
        self.faults = {}
        for f in faults:
            key = (f["op"], f.get("worker"), f["site"], f["k"])
            self.faults[key] = f
        self.trace("phase", phase)

    def begin_op(self, op):
        self.op = op
        self.trace("op", op, round(self.now, 6))

    def count(self, site):
        key = (self.op, self.worker, site)
        k = self.counts.get(key, 0)
        self.counts[key] = k + 1
        if k > self.step_cap:
            raise HarnessError("step cap exceeded at site %s" % site)
        return k

    def fault_at(self, site, k):
        f = self.faults.get((self.op, self.worker, site, k))
        return f

    def fire(self, kind):
        self.fired[kind] = self.fired.get(kind, 0) + 1

    def svc(self, site):
        return self.DEFAULT_SVC.get(site, 0.001) * self.svc_scale

    def advance(self, d):
        if d > 0:
            self.now += d

    def fire_due_timers(self, until):
        """Run every virtual timer due at or before ``until`` (in time order, clock set to its time)."""
        fired = False
        while True:
            due = sorted((t for t in self.timers if t.fire_at <= until), key=lambda t: (t.fire_at, t.seq))
            if not due:
                return fired
            t = due[0]
            self.timers.remove(t)
            if t.fire_at > self.now:
                self.now = t.fire_at
            self.fire("timer")
            self.trace("timer.fire", round(t.fire_at, 6))
            t._run()
            fired = True

    # -- clock -------------------------------------------------------------------------
    def read_clock(self, caller_file):
        # a read from repository code is an observation point; other readers just see time
        if caller_file.startswith(REPO_PREFIX):
            k = self.count("clock")
            f = self.fault_at("clock", k)
            if f is not None and f["kind"] == "jump":
                self.now += float(f["dur"])
                self.fire("jump")
                self.trace("jump", k, f["dur"])
            self.reads += 1
            self.now += 1e-6
            if self.timers:
                self.fire_due_timers(self.now)
            self.trace("clk", k, round(self.now, 6))
        return self.now


def _caller_file(depth=2):
    try:
        return sys._getframe(depth).f_code.co_filename
    except ValueError:
        return ""


# --------------------------------------------------------------------------------------
# time seam (plain functions; bound before inference.* is imported)
# --------------------------------------------------------------------------------------
def v_perf_counter():
    s = SIM
    if s is None or not s.active:
        return REAL["perf_counter"]()
    return s.read_clock(_caller_file())


def v_perf_counter_ns():
    s = SIM
    if s is None or not s.active:
        return REAL["perf_counter_ns"]()
    return int(s.read_clock(_caller_file()) * 1e9)


def v_time():
    s = SIM
    if s is None or not s.active:
        return REAL["time"]()
    return 1.7e9 + s.read_clock(_caller_file())


def v_monotonic():
    s = SIM
    if s is None or not s.active:
        return REAL["monotonic"]()
    return s.read_clock(_caller_file())


def v_monotonic_ns():
    s = SIM
    if s is None or not s.active:
        return REAL["monotonic_ns"]()
    return int(s.read_clock(_caller_file()) * 1e9)


def v_time_ns():
    s = SIM
    if s is None or not s.active:
        return REAL["time_ns"]()
    return int((1.7e9 + s.read_clock(_caller_file())) * 1e9)


def v_sleep(d):
    s = SIM
    if s is None or not s.active:
        return REAL["sleep"](d)
    # sleeping passes virtual time only
    s.advance(max(0.0, float(d)))
    s.trace("sleep", round(float(d), 6))


def install_time_seam():
    REAL["monotonic_ns"] = _time.monotonic_ns
    REAL["time_ns"] = _time.time_ns
    REAL["sleep"] = _time.sleep
    _time.perf_counter = v_perf_counter
    _time.perf_counter_ns = v_perf_counter_ns
    _time.time = v_time
    _time.monotonic = v_monotonic
    _time.monotonic_ns = v_monotonic_ns
    _time.time_ns = v_time_ns
    _time.sleep = v_sleep


# --------------------------------------------------------------------------------------
# solver seams
# --------------------------------------------------------------------------------------
def _stack_sig(skip=2, depth=7):
    """Digest of the python call stack inside the repository (code location of an event)."""
    names = []
    try:
        f = sys._getframe(skip)
    except ValueError:
        return ""
    while f is not None and len(names) < depth:
        fn = f.f_code.co_filename
        if fn.startswith(REPO_PREFIX):
            names.append("%s:%s" % (os.path.basename(fn), f.f_code.co_name))
        f = f.f_back
    return ">".join(names)


def install_solver_seams():
    import z3
    from pysat.examples.rc2 import RC2

    real_solver_check = z3.Solver.check
    real_opt_check = z3.Optimize.check
    real_opt_set = z3.Optimize.set
    real_opt_model = z3.Optimize.model
    real_rc2_compute = RC2.compute
    REAL.update(
        solver_check=real_solver_check,
        opt_check=real_opt_check,
        opt_set=real_opt_set,
        opt_model=real_opt_model,
        rc2_compute=real_rc2_compute,
    )

    def _pre(site):
        """Common part: count, look up fault, compute the virtual duration."""
        s = SIM
        k = s.count(site)
        f = s.fault_at(site, k)
        dur = s.svc(site)
        if f is not None:
            kind = f["kind"]
            if kind == "slow" or kind == "stall":
                dur = float(f["dur"])
                s.fire(kind)
            elif kind == "crash":
                # the process is killed from outside (OOM killer): no handler, no finally block runs
                s.fire("crash")
                s.trace("crash", site, k)
                if s.on_crash is not None:
                    s.on_crash()
                raise WorkerCrash()
            elif kind == "error":
                # the solver call fails inside the process (allocation failure): handlers do run
                s.fire("error")
                s.trace("error", site, k)
                raise MemoryError("injected allocation failure in solver call")
            elif kind == "interrupt":
                # the solver call is interrupted (Ctrl-C in a notebook, a cancelled task)
                s.fire("interrupt")
                s.trace("interrupt", site, k)
                raise z3.Z3Exception("canceled")
        return s, k, f, dur

    real_solver_set = z3.Solver.set
    REAL["solver_set"] = real_solver_set

    def solver_set(self, *a, **kw):
        s = SIM
        if s is None or not s.active:
            return real_solver_set(self, *a, **kw)
        ms = None
        if "timeout" in kw:
            kw = dict(kw)
            ms = kw.pop("timeout")
        elif len(a) == 2 and a[0] == "timeout":
            ms, a = a[1], ()
        if ms is not None:
            # modelled in virtual time; never handed to the real solver
            self._sim_timeout_ms = int(ms)
            s.trace("z3.set_timeout", int(ms))
            s.probe("z3_plain_solver_limit_set")
            if not kw and not a:
                return None
        return real_solver_set(self, *a, **kw)

    def solver_check(self, *a):
        s = SIM
        if s is None or not s.active:
            return real_solver_check(self, *a)
        s, k, f, dur = _pre("z3.check")
        limit_ms = getattr(self, "_sim_timeout_ms", 0)
        if limit_ms and limit_ms > 0 and dur * 1000.0 > limit_ms:
            # a plain solver with a time limit gives up as well
            s.advance(limit_ms / 1000.0)
            s.fire("unknown_plain")
            s.unknown_sites.add(_stack_sig())
            s.trace("z3.check", k, "unknown", round(s.now, 6))
            return z3.unknown
        if s.timers:
            s.fire_due_timers(s.now + dur)  # a timer / alarm due while the call is in progress
        r = real_solver_check(self, *a)
        s.advance(dur)
        s.trace("z3.check", k, str(r), round(s.now, 6))
        return r

    def opt_set(self, *a, **kw):
        s = SIM
        if s is None or not s.active:
            return real_opt_set(self, *a, **kw)
        if "timeout" in kw:
            kw = dict(kw)
            ms = kw.pop("timeout")
            # the limit is modelled in virtual time; it must never reach the real solver
            self._sim_timeout_ms = int(ms)
            s.trace("opt.set_timeout", int(ms))
            s.probe("z3_limit_set")
            if int(ms) == 0:
                s.probe("z3_limit_zero_means_none")
            if not kw and not a:
                return None
        return real_opt_set(self, *a, **kw)

    def opt_check(self, *a):
        s = SIM
        if s is None or not s.active:
            return real_opt_check(self, *a)
        s, k, f, dur = _pre("opt.check")
        self._sim_model_override = None
        limit_ms = getattr(self, "_sim_timeout_ms", 0)
        if limit_ms and limit_ms > 0 and dur * 1000.0 > limit_ms:
            # the solver gives up after its limit: verdict unknown
            flavour = (f or {}).get("unknown", "a")
            s.advance(limit_ms / 1000.0)
            s.fire("unknown_" + flavour)
            s.unknown_sites.add(_stack_sig())
            if flavour == "a":
                pass  # no real check: model() raises or is stale
            elif flavour == "b":
                real_opt_check(self, *a)  # real check done; optimal model readable
            else:  # "c": feasible but not optimal model readable
                sol = z3.Solver()
                sol.add(self.assertions())
                if real_solver_check(sol) == z3.sat:
                    self._sim_model_override = sol.model()
            s.trace("opt.check", k, "unknown/" + flavour, round(s.now, 6))
            return z3.unknown
        if s.timers:
            s.fire_due_timers(s.now + dur)
        r = real_opt_check(self, *a)
        s.advance(dur)
        s.trace("opt.check", k, str(r), round(s.now, 6))
        return r

    def opt_model(self):
        s = SIM
        if s is None or not s.active:
            return real_opt_model(self)
        ov = getattr(self, "_sim_model_override", None)
        if ov is not None:
            return ov
        return real_opt_model(self)

    def rc2_compute(self, *a, **kw):
        s = SIM
        if s is None or not s.active:
            return real_rc2_compute(self, *a, **kw)
        s, k, f, dur = _pre("rc2.compute")
        if s.timers and s.fire_due_timers(s.now + dur):
            # a timer fired while the call was in progress (e.g. a watchdog interrupting the solver):
            # its callback has run, the clock stands at its firing time, the call ends there
            r = real_rc2_compute(self, *a, **kw)
            s.advance(1e-6)
            s.trace("rc2.compute", k, "timer-during-call", None if r is None else getattr(self, "cost", None), round(s.now, 6))
            return r
        r = real_rc2_compute(self, *a, **kw)
        s.advance(dur)
        s.trace("rc2.compute", k, None if r is None else self.cost, round(s.now, 6))
        return r

    z3.Solver.check = solver_check
    z3.Solver.set = solver_set
    z3.Optimize.check = opt_check
    z3.Optimize.set = opt_set
    z3.Optimize.model = opt_model
    RC2.compute = rc2_compute


def install_timer_seam():
    """threading.Timer under the virtual clock: a started timer fires when virtual time passes its
    interval - at a clock read, or in the middle of a solver call that spans its firing time."""
    import threading

    real_timer = threading.Timer
    REAL["Timer"] = real_timer
    counter = [0]

    class VTimer:
        def __new__(cls, interval, function, args=None, kwargs=None):
            s = SIM
            if s is None or not s.active:
                return real_timer(interval, function, args, kwargs)
            return object.__new__(cls)

        def __init__(self, interval, function, args=None, kwargs=None):
            self.interval = float(interval)
            self.function = function
            self.args = args if args is not None else []
            self.kwargs = kwargs if kwargs is not None else {}
            self.fire_at = None
            self.daemon = True
            self.finished = threading.Event()
            counter[0] += 1
            self.seq = counter[0]

        def start(self):
            s = SIM
            self.fire_at = s.now + max(0.0, self.interval)
            s.timers.append(self)
            s.probe("virtual_timers_started")
            s.trace("timer.start", round(self.fire_at, 6))

        def cancel(self):
            s = SIM
            if s is not None and self in s.timers:
                s.timers.remove(self)
            self.finished.set()

        def _run(self):
            self.finished.set()
            self.function(*self.args, **self.kwargs)

        def join(self, timeout=None):
            return None

        def is_alive(self):
            s = SIM
            return s is not None and self in s.timers

    threading.Timer = VTimer

    # --- signal.setitimer / signal.alarm under the virtual clock -------------------------------
    import signal as _signal

    real_setitimer = _signal.setitimer
    real_alarm = _signal.alarm
    real_getitimer = _signal.getitimer
    REAL.update(setitimer=real_setitimer, alarm=real_alarm)

    class _Alarm:
        """A pending virtual SIGALRM: when due, the handler installed for SIGALRM runs (it may raise)."""

        def __init__(self, fire_at, interval):
            self.fire_at = fire_at
            self.interval = interval
            counter[0] += 1
            self.seq = counter[0]

        def _run(self):
            s = SIM
            if self.interval and self.interval > 0:
                nxt = _Alarm(self.fire_at + self.interval, self.interval)
                s.timers.append(nxt)
            h = _signal.getsignal(_signal.SIGALRM)
            s.fire("sigalrm")
            if callable(h):
                h(_signal.SIGALRM, sys._getframe(1))
            elif h == _signal.SIG_DFL:
                raise HarnessError("virtual SIGALRM with the default action (would kill the process)")

    def _pending_alarm(s):
        return [t for t in s.timers if isinstance(t, _Alarm)]

    def setitimer(which, seconds, interval=0.0):
        s = SIM
        if s is None or not s.active or which != _signal.ITIMER_REAL:
            return real_setitimer(which, seconds, interval)
        old = _pending_alarm(s)
        prev = (max(0.0, old[0].fire_at - s.now), old[0].interval) if old else (0.0, 0.0)
        for t in old:
            s.timers.remove(t)
        if seconds and seconds > 0:
            s.timers.append(_Alarm(s.now + float(seconds), float(interval or 0.0)))
            s.probe("virtual_itimers_armed")
            s.trace("itimer.set", round(float(seconds), 6))
        return prev

    def alarm(seconds):
        s = SIM
        if s is None or not s.active:
            return real_alarm(seconds)
        prev = setitimer(_signal.ITIMER_REAL, float(seconds))
        return int(prev[0] + 0.999999) if prev[0] else 0

    def getitimer(which):
        s = SIM
        if s is None or not s.active or which != _signal.ITIMER_REAL:
            return real_getitimer(which)
        old = _pending_alarm(s)
        return (max(0.0, old[0].fire_at - s.now), old[0].interval) if old else (0.0, 0.0)

    _signal.setitimer = setitimer
    _signal.alarm = alarm
    _signal.getitimer = getitimer


def install_deadline_probe():
    """Record the code location at which a deadline is first observed as expired."""
    from inference.deadline import Deadline

    real_remaining = Deadline.remaining_seconds

    def remaining_seconds(self):
        r = real_remaining(self)
        s = SIM
        if s is not None and s.active and r <= 0.0:
            s.expiry_sites.add(_stack_sig())
            s.probe("deadline_seen_expired")
        return r

    Deadline.remaining_seconds = remaining_seconds


def install_hash_seam():
    """Seeded __hash__ for Conditional (and Conditional_z3): set order is simulator-owned."""
    from inference.conditional import Conditional

    real_init = Conditional.__init__

    def __init__(self, *a, **kw):
        real_init(self, *a, **kw)
        s = SIM
        if s is not None and s.hash_rng is not None:
            self._sim_hash = s.hash_rng.getrandbits(60)
        else:
            self._sim_hash = id(self) >> 4

    def __hash__(self):
        try:
            return self._sim_hash
        except AttributeError:  # unpickled or created through __new__
            return id(self) >> 4

    Conditional.__init__ = __init__
    Conditional.__hash__ = __hash__


def verify_bindings():
    """The code under test must really read the simulated clock (else: harness error)."""
    import inference.deadline as d
    import inference.inference as i
    import inference.c_inference as c
    import inference.tseitin_transformation as t

    bad = []
    absent = object()
    for mod, name, want in (
        (d, "perf_counter", v_perf_counter),
        (i, "perf_counter_ns", v_perf_counter_ns),
        (c, "perf_counter_ns", v_perf_counter_ns),
        (t, "perf_counter_ns", v_perf_counter_ns),
    ):
        got = getattr(mod, name, absent)
        # absent = the module reads time.<name> at call time, which is patched globally
        if got is not absent and got is not want:
            bad.append("%s.%s" % (mod.__name__, name))
    return bad
