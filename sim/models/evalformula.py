"""Own formula representation and evaluator (no repository code).

A formula is a nested tuple:
  ("var", name) | ("top",) | ("bot",) | ("not", f) | ("and", f, g, ...) | ("or", f, g, ...)
A world is a dict name -> bool.
"""
import itertools


def ev(f, w):
    t = f[0]
    if t == "var":
        return w[f[1]]
    if t == "top":
        return True
    if t == "bot":
        return False
    if t == "not":
        return not ev(f[1], w)
    if t == "and":
        for g in f[1:]:
            if not ev(g, w):
                return False
        return True
    if t == "or":
        for g in f[1:]:
            if ev(g, w):
                return True
        return False
    if t == "implies":
        return (not ev(f[1], w)) or ev(f[2], w)
    if t == "iff":
        return ev(f[1], w) == ev(f[2], w)
    raise ValueError("unknown node %r" % (t,))


def atoms(f, acc=None):
    acc = set() if acc is None else acc
    if f[0] == "var":
        acc.add(f[1])
    else:
        for g in f[1:]:
            if isinstance(g, tuple):
                atoms(g, acc)
    return acc


def from_pysmt(n):
    """Translate a pysmt FNode (boolean structure only) into the tuple form."""
    if n.is_symbol():
        return ("var", n.symbol_name())
    if n.is_bool_constant():
        return ("top",) if n.constant_value() else ("bot",)
    if n.is_not():
        return ("not", from_pysmt(n.arg(0)))
    if n.is_and():
        return ("and",) + tuple(from_pysmt(a) for a in n.args())
    if n.is_or():
        return ("or",) + tuple(from_pysmt(a) for a in n.args())
    if n.is_implies():
        return ("implies", from_pysmt(n.arg(0)), from_pysmt(n.arg(1)))
    if n.is_iff():
        return ("iff", from_pysmt(n.arg(0)), from_pysmt(n.arg(1)))
    raise ValueError("unsupported pysmt node %s" % n)


def render(f, top=True):
    """Text in the library's input syntax, fully parenthesised below the top level."""
    t = f[0]
    if t == "var":
        return f[1]
    if t == "top":
        return "Top"
    if t == "bot":
        return "Bottom"
    if t == "not":
        g = f[1]
        if g[0] in ("var", "top", "bot", "not"):
            return "!" + render(g, False)
        return "!(" + render(g, True) + ")"
    sep = "," if t == "and" else ";"
    s = sep.join(render(g, False) for g in f[1:])
    return s if top else "(" + s + ")"


def worlds(signature):
    """All worlds in the library's bit-string order (MSB first, index 0 = first atom)."""
    n = len(signature)
    out = []
    for bits in itertools.product("01", repeat=n):
        b = "".join(bits)
        out.append((b, {signature[i]: b[i] == "1" for i in range(n)}))
    return out


def sat(f, signature):
    for _, w in worlds(signature):
        if ev(f, w):
            return True
    return False
