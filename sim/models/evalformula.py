"""Own formula representation and evaluator (no repository code).

A formula is a nested tuple:
  ("var", name) | ("top",) | ("bot",) | ("not", f) | ("and", f, g, ...) | ("or", f, g, ...)
A world is a dict name -> bool.
"""
import itertools


def ev(f, w):
    t = f[0]
    if t == "var":
        return w[f[1]]
    if t == "top":
        return True
    if t == "bot":
        return False
    if t == "not":
        return not ev(f[1], w)
    if t == "and":
        for g in f[1:]:
            if not ev(g, w):
                return False
        return True
    if t == "or":
        for g in f[1:]:
            if ev(g, w):
                return True
        return False
    if t == "implies":
        return (not ev(f[1], w)) or ev(f[2], w)
    if t == "iff":
        return ev(f[1], w) == ev(f[2], w)
    raise ValueError("unknown node %r" % (t,))


def atoms(f, acc=None):
    acc = set() if acc is None else acc
    if f[0] == "var":
        acc.add(f[1])
    else:
        for g in f[1:]:
            if isinstance(g, tuple):
                atoms(g, acc)
    return acc


def from_pysmt(n):
    """Translate a pysmt FNode (boolean structure only) into the tuple form."""
    if n.is_symbol():
        return ("var", n.symbol_name())
    if n.is_bool_constant():
        return ("top",) if n.constant_value() else ("bot",)
    if n.is_not():
        return ("not", from_pysmt(n.arg(0)))
    if n.is_and():
        return ("and",) + tuple(from_pysmt(a) for a in n.args())
    if n.is_or():
        return ("or",) + tuple(from_pysmt(a) for a in n.args())
    if n.is_implies():
        return ("implies", from_pysmt(n.arg(0)), from_pysmt(n.arg(1)))
    if n.is_iff():
        return ("iff", from_pysmt(n.arg(0)), from_pysmt(n.arg(1)))
    raise ValueError("unsupported pysmt node %s" % n)


def render(f, top=True):
    """Text in the library's input syntax, fully parenthesised below the top level."""
    t = f[0]
    if t == "var":
        return f[1]
    if t == "top":
        return "Top"
    if t == "bot":
        return "Bottom"
    if t == "not":
        g = f[1]
        if g[0] in ("var", "top", "bot", "not"):
            return "!" + render(g, False)
        return "!(" + render(g, True) + ")"
    sep = "," if t == "and" else ";"
    s = sep.join(render(g, False) for g in f[1:])
    return s if top else "(" + s + ")"


def worlds(signature):
    """All worlds in the library's bit-string order (MSB first, index 0 = first atom)."""
    n = len(signature)
    out = []
    for bits in itertools.product("01", repeat=n):
        b = "".join(bits)
        out.append((b, {signature[i]: b[i] == "1" for i in range(n)}))
    return out


def sat(f, signature):
    for _, w in worlds(signature):
        if ev(f, w):
            return True
    return False


# --------------------------------------------------------------------------------------
# reading back texts written by render() (used by the shrinkers to simplify formulas)
# --------------------------------------------------------------------------------------
def parse(text):
    """Parse a formula in the library's input syntax as written by render(): '!' binds tightest,
    every compound sub-formula below the top level is parenthesised, one operator per level."""
    toks = []
    i = 0
    while i < len(text):
        c = text[i]
        if c.isspace():
            i += 1
        elif c in "!,;()":
            toks.append(c)
            i += 1
        else:
            j = i
            while j < len(text) and (text[j].isalnum() or text[j] in "_-"):
                j += 1
            if j == i:
                raise ValueError("bad character %r" % c)
            toks.append(text[i:j])
            i = j
    pos = [0]

    def peek():
        return toks[pos[0]] if pos[0] < len(toks) else None

    def take():
        t = peek()
        pos[0] += 1
        return t

    def unary():
        t = take()
        if t == "!":
            return ("not", unary())
        if t == "(":
            f = level()
            if take() != ")":
                raise ValueError("missing )")
            return f
        if t == "Top":
            return ("top",)
        if t == "Bottom":
            return ("bot",)
        if t is None or t in ",;)":
            raise ValueError("unexpected %r" % (t,))
        return ("var", t)

    def level():
        items = [unary()]
        op = None
        while peek() in (",", ";"):
            o = take()
            if op is None:
                op = o
            elif o != op:
                raise ValueError("mixed operators on one level")
            items.append(unary())
        if op is None:
            return items[0]
        return (("and",) if op == "," else ("or",)) + tuple(items)

    f = level()
    if pos[0] != len(toks):
        raise ValueError("trailing input")
    return f


def simpler(f):
    """Strictly smaller candidates for a formula: its direct sub-formulas, and itself with one
    argument dropped."""
    out = []
    if f[0] == "not":
        out.append(f[1])
    elif f[0] in ("and", "or"):
        out.extend(f[1:])
        if len(f) > 3:
            for i in range(1, len(f)):
                out.append(f[:i] + f[i + 1 :])
    return out


def split_conditional(text):
    """'(B|A)' -> (B_text, A_text), splitting at the top-level bar."""
    body = text.strip()
    if not (body.startswith("(") and body.endswith(")")):
        raise ValueError("not a conditional")
    body = body[1:-1]
    depth = 0
    for i, c in enumerate(body):
        if c == "(":
            depth += 1
        elif c == ")":
            depth -= 1
        elif c == "|" and depth == 0:
            return body[:i], body[i + 1 :]
    raise ValueError("no bar")


def simpler_conditionals(text, limit=6):
    """Texts of conditionals obtained by simplifying the consequent or the antecedent."""
    try:
        b, a = split_conditional(text)
        fb, fa = parse(b), parse(a)
    except ValueError:
        return []
    out = []
    for g in simpler(fb):
        out.append("(%s|%s)" % (render(g), render(fa)))
    for g in simpler(fa):
        out.append("(%s|%s)" % (render(fb), render(g)))
    seen, res = set(), []
    for t in out:
        if t != text and t not in seen:
            seen.add(t)
            res.append(t)
    return res[:limit]
