"""Reference model of System Z by definition (brute force over worlds; no repository code)."""
from sim.models.evalformula import ev, worlds


class Inconsistent(Exception):
    pass


def verifies(c, w):
    return ev(c[1], w) and ev(c[0], w)


def falsifies(c, w):
    return ev(c[1], w) and not ev(c[0], w)


def tolerance_partition(signature, conds, extended):
    """conds: list of (B, A).  Returns list of layers (lists of indices into conds) or None.

    standard: ordered partition, None if inconsistent.
    extended: finite layers + last layer = infinity layer (possibly empty), None if not even
    weakly consistent.
    """
    ws = worlds(signature)
    remaining = list(range(len(conds)))
    layers = []
    while True:
        if not remaining:
            if extended:
                layers.append([])
            return layers
        ok_worlds = [w for _, w in ws if not any(falsifies(conds[i], w) for i in remaining)]
        tolerated = [i for i in remaining if any(verifies(conds[i], w) for w in ok_worlds)]
        if not tolerated:
            if extended:
                if not ok_worlds:
                    return None
                layers.append(remaining)
                return layers
            return None
        layers.append(tolerated)
        remaining = [i for i in remaining if i not in tolerated]


class RefZ:
    def __init__(self, signature, conds, extended=False, facts=()):
        self.signature = list(signature)
        self.base = list(conds)
        self.facts = list(facts)
        self.extended = bool(extended)
        self.conds = list(conds) + [(("bot",), ("not", phi)) for phi in facts]
        self.worlds = worlds(self.signature)
        self.partition = tolerance_partition(self.signature, self.conds, self.extended)
        self.consistent = self.partition is not None
        if self.consistent:
            self.top = len(self.partition) if self.extended else None
            self.table = {b: self._rank(w) for b, w in self.worlds}

    def _rank(self, w):
        r = 0
        for li, layer in enumerate(self.partition):
            for i in layer:
                if falsifies(self.conds[i], w):
                    r = max(r, li + 1)
        return r

    def rank(self, bits):
        return self.table[bits]

    def feasible(self, bits):
        return (not self.extended) or self.table[bits] < self.top

    def formula_rank(self, f):
        best = None
        for b, w in self.worlds:
            if ev(f, w):
                r = self.table[b]
                if best is None or r < best:
                    best = r
        return best

    def antecedent_feasible(self, q):
        return any(ev(q[1], w) and self.feasible(b) for b, w in self.worlds)

    def accepts(self, q):
        """rank(A and B) < rank(A and not B); no A-and-B world: False; no A-and-not-B world: True."""
        v = self.formula_rank(("and", q[1], q[0]))
        n = self.formula_rank(("and", q[1], ("not", q[0])))
        if v is None:
            return False
        if n is None:
            return True
        return v < n

    def infinity_layer(self):
        return list(self.partition[-1]) if self.extended else []

    # diagnostics flags by definition
    def diagnostics(self):
        d = {}
        sig = self.signature
        if self.facts:
            d["facts_consistent"] = any(all(ev(p, w) for p in self.facts) for _, w in self.worlds)
        std = tolerance_partition(sig, self.base, False)
        ext = tolerance_partition(sig, self.base, True)
        d["belief_base_consistent"] = std is not None
        if self.extended:
            d["belief_base_weakly_consistent"] = ext is not None
        if self.facts:
            d["combination_consistent"] = self.consistent
            if self.extended and self.consistent and ext is not None:
                d["combination_infinity_increase"] = len(self.partition[-1]) > len(ext[-1])
        return d
