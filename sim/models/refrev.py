"""Reference model of c-revision by definition (no repository code; z3 is used only as a plain
decision procedure over a direct world-level encoding)."""
from sim.models.evalformula import ev, worlds


class RefRev:
    def __init__(self, signature, prior):
        """prior: dict world-bits -> int rank (complete)."""
        self.signature = list(signature)
        self.worlds = worlds(self.signature)
        self.prior = dict(prior)
        self.conds = {}  # idx -> (B, A)

    def set_conds(self, conds):
        self.conds = dict(conds)

    # -- classification ---------------------------------------------------------------------
    def verified(self, idx, w):
        b, a = self.conds[idx]
        return ev(a, w) and ev(b, w)

    def falsified(self, idx, w):
        b, a = self.conds[idx]
        return ev(a, w) and not ev(b, w)

    def compilation(self):
        """(vMin, fMin): idx -> sorted list of (rank, acc-others, rej-others)."""
        vmin = {i: [] for i in self.conds}
        fmin = {i: [] for i in self.conds}
        for bits, w in self.worlds:
            acc = sorted(i for i in self.conds if self.verified(i, w))
            rej = sorted(i for i in self.conds if self.falsified(i, w))
            for i in acc:
                vmin[i].append((self.prior[bits], tuple(x for x in acc if x != i), tuple(rej)))
            for i in rej:
                fmin[i].append((self.prior[bits], tuple(acc), tuple(x for x in rej if x != i)))
        return {i: sorted(v) for i, v in vmin.items()}, {i: sorted(v) for i, v in fmin.items()}

    # -- revised ranking ----------------------------------------------------------------------
    def revised(self, gp, gm):
        out = {}
        for bits, w in self.worlds:
            r = self.prior[bits]
            for i in self.conds:
                if self.verified(i, w):
                    r += gp.get(i, 0)
                elif self.falsified(i, w):
                    r += gm.get(i, 0)
            out[bits] = r
        return out

    def accepts_all(self, gp, gm):
        """List of conditional indices NOT accepted by the revised ranking."""
        k = self.revised(gp, gm)
        bad = []
        for i in self.conds:
            v = [k[b] for b, w in self.worlds if self.verified(i, w)]
            f = [k[b] for b, w in self.worlds if self.falsified(i, w)]
            if not v:
                bad.append(i)
            elif f and not (min(v) < min(f)):
                bad.append(i)
        return bad

    # -- direct encoding for feasibility / domination -----------------------------------------
    def _encode(self, z3, gpz, fixed_plus, fixed_minus):
        # a private z3 context: the oracle must not disturb the solver state of the code under test
        ctx = self._ctx = z3.Context()
        gp, gm, cons = {}, {}, []
        for i in self.conds:
            if fixed_plus and i in fixed_plus:
                gp[i] = z3.IntVal(int(fixed_plus[i]), ctx)
            elif gpz:
                gp[i] = z3.IntVal(0, ctx)
            else:
                gp[i] = z3.Int("rp_%d" % i, ctx)
                cons.append(gp[i] >= 0)
            if fixed_minus and i in fixed_minus:
                gm[i] = z3.IntVal(int(fixed_minus[i]), ctx)
            else:
                gm[i] = z3.Int("rm_%d" % i, ctx)
                cons.append(gm[i] >= 0)
        kappa = {}
        for bits, w in self.worlds:
            t = z3.IntVal(self.prior[bits], ctx)
            for i in self.conds:
                if self.verified(i, w):
                    t = t + gp[i]
                elif self.falsified(i, w):
                    t = t + gm[i]
            kappa[bits] = t
        for i in self.conds:
            V = [b for b, w in self.worlds if self.verified(i, w)]
            F = [b for b, w in self.worlds if self.falsified(i, w)]
            if not V:
                cons.append(z3.BoolVal(False, ctx))
            elif F:
                cons.append(z3.Or([z3.And([kappa[v] < kappa[f] for f in F] + [z3.BoolVal(True, ctx)]) for v in V] + [z3.BoolVal(False, ctx)]))
        return gp, gm, cons

    def feasible(self, z3, real_check, gpz, fixed_plus, fixed_minus):
        gp, gm, cons = self._encode(z3, gpz, fixed_plus, fixed_minus)
        s = z3.Solver(ctx=self._ctx)
        s.add(cons)
        return real_check(s) == z3.sat

    def dominated(self, z3, real_check, gpz, fixed_plus, fixed_minus, gm_returned):
        """Is there a feasible vector <= the returned gamma- everywhere and < somewhere?"""
        gp, gm, cons = self._encode(z3, gpz, fixed_plus, fixed_minus)
        free = [i for i in self.conds if not (fixed_minus and i in fixed_minus)]
        if not free:
            return None
        s = z3.Solver(ctx=self._ctx)
        s.add(cons)
        for i in free:
            s.add(gm[i] <= int(gm_returned.get(i, 0)))
        s.add(z3.Or([gm[i] < int(gm_returned.get(i, 0)) for i in free] + [z3.BoolVal(False, self._ctx)]))
        if real_check(s) == z3.sat:
            m = s.model()
            return {i: m.eval(gm[i], model_completion=True).as_long() for i in free}
        return None
