"""SimMP: simulated ``multiprocessing`` as seen by ``inference.inference`` (the name ``mp``).

* ``Manager()`` / ``manager.dict()``: a parent-side dict whose worker writes become visible at
  their virtual time stamps.
* ``Process``: a real ``os.fork`` child that runs the real worker function to completion under its
  own virtual clock (eagerly, at ``start()``), and reports a time-stamped effect list.  ``join``,
  ``is_alive`` and ``terminate`` are played back in virtual time in the parent.

Workers share nothing but the result dict, therefore eager execution is equivalent to any real
interleaving with the same time stamps (assumption recorded in the evidence).
"""
import multiprocessing as real_mp
import os
import pickle
import traceback

from sim import seams


class SimDict:
    """Manager dict (parent side)."""

    def __init__(self, owner):
        self.owner = owner
        self.events = []  # (t, seq, key, value, proc or None)
        self.seq = 0

    def _visible(self):
        s = seams.SIM
        out = {}
        for t, seq, k, v, proc in sorted(self.events, key=lambda e: (e[0], e[1])):
            if t > s.now:
                continue
            if proc is not None and proc.terminated_at is not None and t > proc.terminated_at:
                continue
            out[k] = v
        return out

    def __setitem__(self, k, v):
        s = seams.SIM
        self.seq += 1
        self.events.append((s.now, self.seq, k, v, None))
        s.trace("mpdict.set", repr(k), repr(v))

    def __getitem__(self, k):
        return self._visible()[k]

    def __contains__(self, k):
        return k in self._visible()

    def __iter__(self):
        return iter(self._visible())

    def __len__(self):
        return len(self._visible())

    def get(self, k, d=None):
        return self._visible().get(k, d)

    def keys(self):
        return self._visible().keys()

    def values(self):
        return self._visible().values()

    def items(self):
        return self._visible().items()

    def __delitem__(self, k):
        raise seams.HarnessError("SimDict.__delitem__ not modelled")

    def pop(self, *a):
        raise seams.HarnessError("SimDict.pop not modelled")

    def update(self, *a, **kw):
        for k, v in dict(*a, **kw).items():
            self[k] = v

    def add_worker_effects(self, proc, effects):
        for t, k, v in effects:
            self.seq += 1
            self.events.append((t, self.seq, k, v, proc))


class RecordingDict:
    """What a simulated worker sees instead of the manager dict proxy."""

    def __init__(self):
        self.effects = []
        self.local = {}

    def __setitem__(self, k, v):
        self.effects.append((seams.SIM.now, k, v))
        self.local[k] = v

    def __getitem__(self, k):
        return self.local[k]

    def __contains__(self, k):
        return k in self.local

    def get(self, k, d=None):
        return self.local.get(k, d)


class SimConn:
    """Parent/child ends of a simulated one-way (or duplex) pipe.  A message sent by a simulated
    worker at virtual time t is readable in the parent from t on (never, if the worker was terminated
    before t)."""

    def __init__(self, pipe, end):
        self.pipe = pipe
        self.end = end  # "recv" or "send"
        self.closed = False

    # -- parent side -------------------------------------------------------------------------
    def _ready(self):
        s = seams.SIM
        out = []
        for t, seq, obj, proc in sorted(self.pipe.msgs, key=lambda m: (m[0], m[1])):
            if t > s.now:
                continue
            if proc is not None and proc.terminated_at is not None and t > proc.terminated_at:
                continue
            out.append((t, seq, obj, proc))
        return out

    def poll(self, timeout=0.0):
        s = seams.SIM
        r = self._ready()
        if r:
            return True
        if timeout is None or (timeout and timeout > 0):
            # wait (in virtual time) for the next message
            future = sorted((m for m in self.pipe.msgs if m[0] > s.now and not (m[3] is not None and m[3].terminated_at is not None and m[0] > m[3].terminated_at)), key=lambda m: (m[0], m[1]))
            if future and (timeout is None or future[0][0] <= s.now + timeout):
                s.now = future[0][0]
                return True
            if timeout:
                s.now += timeout
        return False

    def recv(self):
        s = seams.SIM
        r = self._ready()
        if not r:
            future = sorted((m for m in self.pipe.msgs if m[0] > s.now), key=lambda m: (m[0], m[1]))
            usable = [m for m in future if not (m[3] is not None and m[3].terminated_at is not None and m[0] > m[3].terminated_at)]
            if not usable:
                raise EOFError
            s.now = usable[0][0]
            r = [usable[0]]
        m = r[0]
        self.pipe.msgs.remove(m)
        s.trace("pipe.recv", repr(m[2])[:120])
        return m[2]

    def send(self, obj):
        s = seams.SIM
        if isinstance(self.pipe, _ChildPipe):
            self.pipe.effects.append((s.now, ("pipe", self.pipe.pid_), obj))
            return
        self.pipe.seq += 1
        self.pipe.msgs.append((s.now, self.pipe.seq, obj, None))

    def close(self):
        self.closed = True

    def fileno(self):
        return -1

    def __enter__(self):
        return self

    def __exit__(self, *a):
        self.close()


class SimPipe:
    def __init__(self, mpstate):
        self.msgs = []
        self.seq = 0
        self.id = len(mpstate.pipes)
        mpstate.pipes.append(self)
        self.r = SimConn(self, "recv")
        self.w = SimConn(self, "send")


class _ChildPipe:
    """What a simulated worker sees instead of a SimPipe: sends are recorded as effects."""

    def __init__(self, pid_, effects):
        self.pid_ = pid_
        self.effects = effects


class SimManager:
    def __init__(self, mpstate):
        self.mpstate = mpstate
        self.entered = False
        self.exited = False
        self.dicts = []
        mpstate.managers.append(self)

    def __enter__(self):
        self.entered = True
        return self

    def __exit__(self, *a):
        self.exited = True
        return False

    def shutdown(self):
        self.exited = True

    def dict(self, *a, **kw):
        d = SimDict(self)
        self.dicts.append(d)
        if a or kw:
            d.update(*a, **kw)
        return d


class SimProcess:
    def __init__(self, mpstate, target, args, kwargs):
        self.mpstate = mpstate
        self.target = target
        self.args = tuple(args)
        self.kwargs = dict(kwargs or {})
        self.started = False
        self.t_end = None
        self.status = None
        self.terminated_at = None
        self.joined = False
        self.reaped = False
        self.index = None
        self.daemon = False
        self.name = "SimProcess"

    # -- life cycle ------------------------------------------------------------------------
    def start(self):
        s = seams.SIM
        if self.started:
            raise AssertionError("cannot start a process twice")
        self.started = True
        s.probe("mp_workers")
        st = self.mpstate
        self.index = len(st.processes)
        st.processes.append(self)
        lat = st.spawn_latency(self.index)
        s.advance(lat)
        t_start = s.now
        r, w = os.pipe()
        pid = os.fork()
        if pid == 0:
            code = 0
            try:
                os.close(r)
                payload = self._child(t_start, w)
                data = pickle.dumps(payload)
                off = 0
                while off < len(data):
                    off += os.write(w, data[off : off + 65536])
            except BaseException:  # noqa: BLE001
                code = 3
                try:
                    os.write(w, pickle.dumps({"harness_error": traceback.format_exc()[-2000:]}))
                except Exception:  # noqa: BLE001
                    pass
            finally:
                os._exit(code)
        os.close(w)
        chunks = []
        while True:
            b = os.read(r, 1 << 16)
            if not b:
                break
            chunks.append(b)
        os.close(r)
        os.waitpid(pid, 0)
        try:
            payload = pickle.loads(b"".join(chunks))
        except Exception:  # noqa: BLE001
            raise seams.HarnessError("simulated worker %d died without report" % self.index)
        if "harness_error" in payload:
            raise seams.HarnessError("in simulated worker: " + payload["harness_error"])
        self.t_end = payload["t_end"]
        self.status = payload["status"]
        self.effects = payload["effects"]
        self.exc = payload.get("exc")
        dict_effects = [e for e in self.effects if not (isinstance(e[1], tuple) and len(e[1]) == 2 and e[1][0] == "pipe")]
        for d in self._dicts():
            d.add_worker_effects(self, dict_effects)
        for t, key, obj in self.effects:
            if isinstance(key, tuple) and len(key) == 2 and key[0] == "pipe":
                pipe = self.mpstate.pipes[key[1]]
                pipe.seq += 1
                pipe.msgs.append((t, pipe.seq, obj, self))
        # merge observation counts and statistics of the worker
        for k, v in payload["counts"].items():
            s.counts[k] = s.counts.get(k, 0) + v
        for k, v in payload["fired"].items():
            s.fired[k] = s.fired.get(k, 0) + v
        for k, v in payload["probes"].items():
            s.probes[k] = s.probes.get(k, 0) + v
        s.expiry_sites.update(payload["expiry_sites"])
        s.unknown_sites.update(payload["unknown_sites"])
        s.vtime_total += max(0.0, payload["t_end"] - t_start)
        s.trace("worker", self.index, round(t_start, 6), round(self.t_end, 6), self.status, payload["digest"])

    def _dicts(self):
        return [a for a in self.args if isinstance(a, SimDict)]

    def _child(self, t_start, wfd):
        s = seams.SIM
        s.worker = self.index
        s.now = t_start
        s.sha = __import__("hashlib").sha256()
        s.fired = {}
        s.probes = {}
        s.expiry_sites = set()
        s.unknown_sites = set()
        base_counts = dict(s.counts)
        s.counts = {}
        rec = RecordingDict()

        def subst(a):
            if isinstance(a, SimDict):
                return rec
            if isinstance(a, SimConn):
                return SimConn(_ChildPipe(a.pipe.id, rec.effects), a.end)
            return a

        args = tuple(subst(a) for a in self.args)
        status = 0
        exc = None

        def report(status, exc, t_end):
            return {
                "effects": rec.effects,
                "t_end": t_end,
                "status": status,
                "exc": exc,
                "counts": s.counts,
                "fired": s.fired,
                "probes": s.probes,
                "expiry_sites": sorted(s.expiry_sites),
                "unknown_sites": sorted(s.unknown_sites),
                "digest": s.digest()[:16],
            }

        def crash_now():
            data = pickle.dumps(report(-9, "killed", s.now))
            off = 0
            while off < len(data):
                off += os.write(wfd, data[off : off + 65536])
            os._exit(0)

        s.on_crash = crash_now
        try:
            self.target(*args, **self.kwargs)
        except seams.WorkerCrash:
            status = -9
        except seams.HarnessError:
            raise
        except BaseException as e:  # noqa: BLE001  (a real worker would print and exit 1)
            status = 1
            exc = "%s: %s" % (type(e).__name__, e)
        t_end = s.now
        f = s.faults.get((s.op, self.index, "exit", 0))
        if f is not None and status == 0:
            t_end += float(f["dur"])
            s.fire("exit_stall")
        del base_counts
        return report(status, exc, t_end)

    def join(self, timeout=None):
        s = seams.SIM
        if not self.started:
            raise AssertionError("can only join a started process")
        end = self.t_end if self.terminated_at is None else min(self.t_end, self.terminated_at)
        if timeout is None:
            if end > s.now:
                s.now = end
            self.reaped = True
        else:
            timeout = max(0.0, float(timeout))
            if end <= s.now + timeout:
                if end > s.now:
                    s.now = end
                self.reaped = True
            else:
                s.now += timeout
        self.joined = True
        s.trace("join", self.index, None if timeout is None else round(timeout, 6), round(s.now, 6), self.reaped)

    def is_alive(self):
        s = seams.SIM
        if not self.started or self.reaped:
            alive = False
        elif self.terminated_at is not None:
            alive = False
        else:
            alive = self.t_end > s.now
            if not alive:
                self.reaped = True  # real is_alive() reaps a finished child
        s.trace("is_alive", self.index, alive)
        return alive

    def terminate(self):
        s = seams.SIM
        if self.started and self.terminated_at is None and self.t_end > s.now:
            self.terminated_at = s.now
            s.fire("terminate_path")
        s.trace("terminate", self.index, round(s.now, 6))

    kill = terminate

    def close(self):
        pass

    @property
    def exitcode(self):
        s = seams.SIM
        if not self.started:
            return None
        if self.terminated_at is not None:
            return -15
        return self.status if self.t_end <= s.now else None

    @property
    def pid(self):
        return 100000 + (self.index or 0)


class MPState:
    """Book-keeping of one parallel call (reset per operation)."""

    def __init__(self, latencies=None):
        self.managers = []
        self.processes = []
        self.pipes = []
        self.latencies = latencies or []

    def spawn_latency(self, j):
        if j < len(self.latencies):
            return float(self.latencies[j])
        return 0.001

    def completion_order(self):
        """(order of worker completion, set of terminated workers)."""
        ps = [p for p in self.processes if p.started]
        order = tuple(p.index for p in sorted(ps, key=lambda p: (p.t_end, p.index)))
        killed = tuple(p.index for p in ps if p.terminated_at is not None)
        return order, killed

    def leftovers(self):
        """What a call left behind (evaluated after the call returned)."""
        s = seams.SIM
        out = []
        for p in self.processes:
            if not p.started:
                continue
            if p.terminated_at is None and p.t_end > s.now:
                out.append("worker %d still running at return" % p.index)
            elif not p.reaped and not (p.terminated_at is not None and p.joined):
                if p.terminated_at is not None:
                    out.append("worker %d terminated but never joined" % p.index)
                else:
                    out.append("worker %d finished but never joined (zombie)" % p.index)
        for m in self.managers:
            if not m.exited:
                out.append("manager process not shut down")
        return out


_REAL_MANAGER = real_mp.Manager


class SimMPModule:
    """Stands in for the ``multiprocessing`` module inside ``inference.inference``."""

    def __init__(self):
        self.state = None

    def _st(self):
        if self.state is None:
            self.state = MPState()
        return self.state

    def Manager(self):
        s = seams.SIM
        if s is None or not s.active:
            return _REAL_MANAGER()
        s.probe("mp_manager")
        return SimManager(self._st())

    def Process(self, group=None, target=None, name=None, args=(), kwargs=None, daemon=None):
        s = seams.SIM
        if s is None or not s.active:
            return real_mp.Process(group=group, target=target, name=name, args=args, kwargs=kwargs or {}, daemon=daemon)
        return SimProcess(self._st(), target, args, kwargs)

    def Pipe(self, duplex=True):
        s = seams.SIM
        if s is None or not s.active:
            return _REAL_PIPE(duplex)
        s.probe("mp_pipe")
        p = SimPipe(self._st())
        return p.r, p.w

    def __getattr__(self, name):
        return getattr(real_mp, name)


_REAL_PIPE = real_mp.Pipe
SIMMP = SimMPModule()


class _NotModelled:
    def __init__(self, name, real):
        self.name, self.real = name, real

    def __call__(self, *a, **kw):
        s = seams.SIM
        if s is None or not s.active:
            return self.real(*a, **kw)
        raise seams.HarnessError("multiprocessing.%s is not modelled by SimMP" % self.name)


def install():
    """Bind the seam under the name the module uses today AND on the multiprocessing module
    itself, so that other import styles (`import multiprocessing`, `from multiprocessing import
    Process, Manager`, `get_context('fork')`) reach it too."""
    import inference.inference as ii

    if hasattr(ii, "mp"):
        ii.mp = SIMMP
    real_mp.Manager = SIMMP.Manager
    real_Process = real_mp.Process
    SIMMP._real_Process = real_Process

    class _ProcessMeta(type):
        def __instancecheck__(cls, obj):
            return isinstance(obj, (SimProcess, real_Process))

    class Process(metaclass=_ProcessMeta):
        def __new__(cls, group=None, target=None, name=None, args=(), kwargs=None, daemon=None):
            s = seams.SIM
            if s is None or not s.active:
                return real_Process(group=group, target=target, name=name, args=args, kwargs=kwargs or {}, daemon=daemon)
            return SimProcess(SIMMP._st(), target, args, kwargs)

    real_mp.Process = Process
    SIMMP.Process = lambda group=None, target=None, name=None, args=(), kwargs=None, daemon=None: Process(group, target, name, args, kwargs, daemon)
    real_get_context = real_mp.get_context

    def get_context(method=None):
        s = seams.SIM
        if s is None or not s.active:
            return real_get_context(method)
        if method not in (None, "fork"):
            raise seams.HarnessError("only the fork start method is modelled by SimMP (asked for %r)" % (method,))
        return SIMMP

    real_mp.get_context = get_context
    SIMMP.get_context = get_context
    real_mp.Pipe = SIMMP.Pipe
    for name in ("Queue", "SimpleQueue", "JoinableQueue", "Pool", "Value", "Array"):
        if hasattr(real_mp, name):
            setattr(real_mp, name, _NotModelled(name, getattr(real_mp, name)))
    for name in ("Process", "Manager", "Pipe", "get_context", "active_children"):
        if hasattr(ii, name):
            setattr(ii, name, getattr(real_mp, name))

    def active_children():
        s = seams.SIM
        if s is None or not s.active:
            return SIMMP._real_active_children()
        st = SIMMP.state
        return [p for p in (st.processes if st else []) if p.is_alive()]

    SIMMP._real_active_children = real_mp.active_children
    real_mp.active_children = active_children
    if hasattr(ii, "active_children"):
        ii.active_children = active_children
