"""Swarm-style workload generators: formulas, conditionals, bases, queries (pure python)."""
import glob
import os
import re

from sim.models.evalformula import render, sat
from sim.models.refz import tolerance_partition

ATOMS = ["a", "b", "c", "d", "e", "f"]
REPO = os.environ.get("VERIF_REPO", "/repo")


def gen_formula(rng, atoms, depth, p_const=0.02):
    if depth <= 0 or rng.random() < 0.35:
        if rng.random() < p_const:
            return ("top",) if rng.random() < 0.5 else ("bot",)
        v = ("var", rng.choice(atoms))
        return ("not", v) if rng.random() < 0.4 else v
    r = rng.random()
    if r < 0.15:
        return ("not", gen_formula(rng, atoms, depth - 1, p_const))
    op = "and" if r < 0.6 else "or"
    n = 2 if rng.random() < 0.8 else 3
    return (op,) + tuple(gen_formula(rng, atoms, depth - 1, p_const) for _ in range(n))


def gen_literal(rng, atoms):
    v = ("var", rng.choice(atoms))
    return ("not", v) if rng.random() < 0.4 else v


def gen_conditional(rng, atoms, style):
    """style: 'literal' -> (lit|lit); 'mixed' -> small formulas; 'compound' -> deeper."""
    if style == "literal":
        return (gen_literal(rng, atoms), gen_literal(rng, atoms))
    d = 1 if style == "mixed" else 2
    b = gen_formula(rng, atoms, rng.choice([0, d]))
    a = gen_formula(rng, atoms, rng.choice([0, d, d]))
    return (b, a)


def cond_text(c):
    return "(%s|%s)" % (render(c[0]), render(c[1]))


def base_text(signature, conds, name="kb"):
    return "signature\n %s\n\nconditionals\n%s{\n%s\n}\n" % (
        ",".join(signature),
        name,
        ",\n".join("  " + cond_text(c) for c in conds),
    )


def gen_base(rng, want="consistent", max_atoms=5, max_conds=7, style=None, exact_atoms=None):
    """Return (signature, conds).  want: 'consistent' | 'weakly' (weakly but not strictly
    consistent) | 'any'."""
    for _ in range(200):
        n_atoms = exact_atoms if exact_atoms else rng.randint(min(2, max_atoms), max_atoms)
        sig = ATOMS[:n_atoms]
        n_conds = rng.randint(1, max_conds)
        st = style or rng.choice(["literal", "mixed", "mixed", "compound"])
        conds = []
        for _ in range(n_conds):
            c = gen_conditional(rng, sig, st)
            conds.append(c)
        if want == "any":
            return sig, conds
        std = tolerance_partition(sig, conds, False)
        if want == "consistent":
            if std is not None:
                return sig, conds
            # repair: drop conditionals until consistent
            cs = list(conds)
            while cs and tolerance_partition(sig, cs, False) is None:
                cs.pop(rng.randrange(len(cs)))
            if cs:
                return sig, cs
        elif want == "weakly":
            if std is None and tolerance_partition(sig, conds, True) is not None:
                return sig, conds
    # fallbacks that always satisfy the request
    if want == "weakly":
        return ["a", "b"], [(("var", "b"), ("var", "a")), (("bot",), ("and", ("var", "a"), ("not", ("var", "b"))))]
    return ["a", "b"], [(("var", "b"), ("var", "a"))]


def gen_defaults_base(rng, max_atoms=5):
    """Several defaults with one common antecedent (one tolerance layer with several members):
    (x1|A), (x2|A), ... plus possibly one more specific conditional."""
    n_atoms = rng.randint(3, max_atoms)
    sig = ATOMS[:n_atoms]
    a_atom = rng.choice(sig)
    ante = ("top",) if rng.random() < 0.3 else ("var", a_atom)
    rest = [x for x in sig if x != a_atom or ante == ("top",)]
    rng.shuffle(rest)
    k = rng.randint(2, min(4, len(rest)))
    conds = []
    for x in rest[:k]:
        v = ("var", x)
        conds.append((("not", v) if rng.random() < 0.25 else v, ante))
    if rng.random() < 0.4:
        extra = gen_conditional(rng, sig, "literal")
        if tolerance_partition(sig, conds + [extra], False) is not None:
            conds.append(extra)
    return sig, conds


def gen_deep_pair(rng, sig):
    """Two conditionals that agree down to nesting depth 6 and differ only below (they collide in
    any cache keyed on an abbreviated formula text)."""
    p_, b_ = rng.sample(sig, 2)
    leaf = rng.choice(sig)
    out = []
    for neg in (False, True):
        x = ("not", ("var", leaf)) if neg else ("var", leaf)
        for _ in range(3):
            x = ("and", ("var", b_), ("or", ("not", ("var", p_)), x))
        out.append((x, ("var", p_)))
    return out


def gen_large_base(rng, n_atoms=5, n_conds=None):
    """A consistent base with 10-13 literal conditionals (all verified by one hidden world)."""
    sig = ATOMS[:n_atoms]
    star = {a: rng.random() < 0.7 for a in sig}

    def lit(a):
        return ("var", a) if star[a] else ("not", ("var", a))

    pairs = [(b, a) for a in sig for b in sig if a != b]
    rng.shuffle(pairs)
    n = n_conds or rng.randint(10, 13)
    return sig, [(lit(b), lit(a)) for b, a in pairs[:n]]


def gen_survivor_query(rng, conds):
    """(x | A1,!B1 ; A2,!B2) where (x|A) is a further default of the base: entailed only through
    several minimal correction sets."""
    pick = rng.sample(conds, 2 if len(conds) < 4 or rng.random() < 0.7 else 3)
    others = [c for c in conds if c not in pick]
    if not others:
        others = pick[-1:]
        pick = pick[:-1]
    ante = ("or",) + tuple(("and", a, ("not", b)) if a != ("top",) else ("not", b) for b, a in pick)
    if len(ante) == 2:
        ante = ante[1]
    return (rng.choice(others)[0], ante)


def gen_exception_chain_base(rng):
    """Classes with exceptions to exceptions (birds fly, penguins are birds and do not fly, super
    penguins are penguins and fly, ...): a tolerance partition with 3-4 layers."""
    k = rng.choice([3, 3, 4])
    sig = ATOMS[: k + 2]  # the last atom is not mentioned by any conditional
    x = ("var", sig[0])
    cls = [("var", a) for a in sig[1 : k + 1]]
    conds = [(x, cls[0])]
    for i in range(1, k):
        prop = x if i % 2 == 0 else ("not", x)
        conds.append((prop, cls[i]))
        conds.append((cls[i - 1], cls[i]))
    return sig, conds


def gen_chain_query(rng, sig, conds):
    """Queries about a class combined with an (un)expected property, e.g. (!p | s,!f)."""
    x = ("var", sig[0])
    cls = [("var", a) for a in sig[1:-1]]
    free = ("var", sig[-1])
    c = rng.choice(cls)
    lit = rng.choice([x, ("not", x)])
    r = rng.random()
    if r < 0.25:
        # about an atom the base says nothing about: undecided on every layer, the recursion goes deep
        return (rng.choice([free, ("not", free)]), rng.choice([c, ("and", c, lit)]))
    if r < 0.5:
        other = rng.choice(cls)
        return (rng.choice([other, ("not", other)]), ("and", c, lit))
    if r < 0.7:
        return (lit, ("and", c, rng.choice([("not", rng.choice(cls)), rng.choice(cls)])))
    return (lit, c)


def gen_infinity_query(rng, sig, conds):
    """For a weakly consistent base: a query whose antecedent together with the negated consequent
    contradicts a conditional of the infinity layer (the consequent is that conditional's material
    implication), so its answer hangs on the vacuity tests of the extended operators rather than on
    the finite layers.  None if the base has no infinity layer."""
    layers = tolerance_partition(sig, conds, True)
    if not layers or not layers[-1]:
        return None
    b, a = conds[rng.choice(layers[-1])]
    cons = b if a == ("top",) else ("or", ("not", a), b)
    r = rng.random()
    ante = ("top",) if r < 0.15 else (gen_literal(rng, sig) if r < 0.7 else gen_formula(rng, sig, 1))
    return (cons, ante)


def gen_query(rng, atoms, conds=None, bias=None):
    r = rng.random()
    if bias == "conflict" and conds:
        # mostly queries that conflict with the base (several minimal correction sets)
        r = rng.choice([0.2, 0.35, 0.35, 0.35, r])
    if conds and r < 0.15:
        return rng.choice(conds)  # a conditional of the base itself
    if conds and r < 0.3:
        b, a = rng.choice(conds)
        return (("not", b), a)
    if conds and len(conds) >= 2 and r < 0.4:
        # "one of several defaults fails": the antecedent falsifies at least one of 2-3 base
        # conditionals, so correction-set enumerations have several minimal sets (Pareto fronts)
        pick = rng.sample(conds, min(len(conds), rng.choice([2, 2, 3])))
        ante = ("or",) + tuple(("and", a, ("not", b)) if a != ("top",) else ("not", b) for b, a in pick)
        others = [c for c in conds if c not in pick]
        r2 = rng.random()
        if others and r2 < 0.5:
            cons = rng.choice(others)[0]  # a further default that should survive
        elif r2 < 0.8:
            cons = rng.choice(pick)[0]
        else:
            cons = gen_literal(rng, atoms)
        return (cons, ante)
    if r < 0.6:
        return gen_conditional(rng, atoms, "literal")
    if r < 0.9:
        return gen_conditional(rng, atoms, "mixed")
    return gen_conditional(rng, atoms, "compound")


# ----------------------------------------------------------------------------------------
# shipped example bases (text embedded in the scenario so that replay files are self-contained)
# ----------------------------------------------------------------------------------------
_SHIPPED = None


def shipped_bases():
    global _SHIPPED
    if _SHIPPED is None:
        out = []
        pats = ["examples/birds/kb_*.cl", "examples/birds/example*.cl", "examples/gen/kb_gen*.cl"]
        for p in pats:
            for f in sorted(glob.glob(os.path.join(REPO, p))):
                try:
                    txt = open(f).read()
                except OSError:
                    continue
                m = re.search(r"signature\s*\n([^\n]*)\n", txt)
                if not m:
                    continue
                sig = [s.strip() for s in m.group(1).split(",") if s.strip()]
                body = txt[txt.find("{") + 1 : txt.rfind("}")]
                idents = set(re.findall(r"[A-Za-z][A-Za-z0-9_\-]*", body))
                # atoms outside the declared signature (e.g. a lower-case 'top') put a base
                # outside the world semantics over its signature: not used as workload
                if not idents <= set(sig) | {"Top", "Bottom"}:
                    continue
                if 1 <= len(sig) <= 6 and "inconsistent" not in f:
                    out.append((os.path.relpath(f, REPO), sig, txt))
        _SHIPPED = out
    return _SHIPPED
