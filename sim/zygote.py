"""Zygote: a pristine interpreter with all seams installed and the code under test imported,
but no formula, solver or manager ever created.  Every job is executed in a fresh fork of it,
so every scenario starts from the same process state whichever worker runs it.

Protocol: one JSON object per line on stdin (a job), one JSON object per line on stdout.
"""
import json
import os
import select
import signal
import sys
import traceback

VERIF = os.path.dirname(os.path.dirname(os.path.abspath(__file__)))
if VERIF not in sys.path:
    sys.path.insert(0, VERIF)
_repo = os.environ.get("VERIF_REPO")
if _repo:
    sys.path.insert(0, _repo)
os.environ.setdefault("INFOCF_LOGLEVEL", "ERROR")

from sim import seams  # noqa: E402

seams.install_time_seam()
seams.install_timer_seam()

import warnings  # noqa: E402

warnings.filterwarnings("ignore")

import z3  # noqa: E402,F401
import pandas  # noqa: E402,F401
import pysmt.shortcuts  # noqa: E402,F401
from pysmt.environment import get_env  # noqa: E402
import pysat.examples.rc2  # noqa: E402,F401
import inference.inference_manager  # noqa: E402,F401
import inference.preocf  # noqa: E402,F401
import inference.c_revision  # noqa: E402,F401
import inference.c_revision_model  # noqa: E402,F401
import inference.queries  # noqa: E402,F401
import parser.Wrappers  # noqa: E402,F401

seams.install_solver_seams()
seams.install_deadline_probe()
seams.install_hash_seam()
from sim import simmp, simfs  # noqa: E402

simmp.install()
simfs.install()
get_env().factory.all_solvers()

import engines  # noqa: E402


def _run_job(job):
    try:
        bad = seams.verify_bindings()
        if bad:
            return {"harness_error": "seam not bound: %s" % ", ".join(bad)}
        fn = engines.resolve(job["engine"], job["func"])
        return fn(job["doc"])
    except seams.HarnessError as e:
        return {"harness_error": "HarnessError: %s" % e, "tb": traceback.format_exc()[-3000:]}
    except BaseException as e:  # noqa: BLE001
        return {"harness_error": "%s: %s" % (type(e).__name__, e), "tb": traceback.format_exc()[-3000:]}


def _serve_one(job, out):
    wall_cap = float(job.get("wall_cap", 60))
    r, w = os.pipe()
    sys.stdout.flush()
    pid = os.fork()
    if pid == 0:
        try:
            os.close(r)
            os.setpgid(0, 0)
            import faulthandler

            faulthandler.enable()
            res = _run_job(job)
            data = json.dumps(res, default=str).encode()
            off = 0
            while off < len(data):
                off += os.write(w, data[off : off + 65536])
            os.close(w)
        except BaseException:  # noqa: BLE001
            try:
                os.write(w, json.dumps({"harness_error": traceback.format_exc()[-3000:]}).encode())
            except Exception:  # noqa: BLE001
                pass
        finally:
            os._exit(0)
    os.close(w)
    chunks = []
    deadline = seams.REAL["monotonic"]() + wall_cap
    timed_out = False
    while True:
        left = deadline - seams.REAL["monotonic"]()
        if left <= 0:
            timed_out = True
            break
        rl, _, _ = select.select([r], [], [], min(left, 1.0))
        if rl:
            b = os.read(r, 1 << 16)
            if not b:
                break
            chunks.append(b)
    os.close(r)
    if timed_out:
        try:
            os.killpg(pid, signal.SIGKILL)
        except Exception:  # noqa: BLE001
            try:
                os.kill(pid, signal.SIGKILL)
            except Exception:  # noqa: BLE001
                pass
    _, status = os.waitpid(pid, 0)
    # reap any orphaned grandchildren in the child's process group
    try:
        os.killpg(pid, signal.SIGKILL)
    except Exception:  # noqa: BLE001
        pass
    if timed_out:
        reply = {"id": job.get("id"), "result": {"harness_error": "wall cap %.0fs exceeded" % wall_cap}}
    else:
        raw = b"".join(chunks)
        try:
            reply = {"id": job.get("id"), "result": json.loads(raw.decode())}
        except Exception:  # noqa: BLE001
            reply = {
                "id": job.get("id"),
                "result": {"harness_error": "child died (status %d) with %d bytes of output" % (status, len(raw))},
            }
    out.write(json.dumps(reply) + "\n")
    out.flush()


def main():
    out = os.fdopen(os.dup(1), "w")
    # anything the code under test prints must not corrupt the protocol
    devnull = os.open(os.devnull, os.O_WRONLY)
    os.dup2(devnull, 1)
    out.write(json.dumps({"ready": True, "pid": os.getpid()}) + "\n")
    out.flush()
    for line in sys.stdin:
        line = line.strip()
        if not line:
            continue
        job = json.loads(line)
        if job.get("quit"):
            break
        _serve_one(job, out)


if __name__ == "__main__":
    main()
