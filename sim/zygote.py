"""Zygote: a pristine interpreter with all seams installed and the code under test imported,
but no formula, solver or manager ever created.  Every job is executed in a fresh fork of it,
so every scenario starts from the same process state whichever worker runs it.

Protocol: one JSON object per line on stdin (a job), one JSON object per line on stdout.
"""
import json
import os
import select
import signal
import sys
import traceback

VERIF = os.path.dirname(os.path.dirname(os.path.abspath(__file__)))
if VERIF not in sys.path:
    sys.path.insert(0, VERIF)
_repo = os.environ.get("VERIF_REPO")
if _repo:
    sys.path.insert(0, _repo)
os.environ.setdefault("INFOCF_LOGLEVEL", "ERROR")

from sim import seams  # noqa: E402

seams.install_time_seam()
seams.install_timer_seam()

import warnings  # noqa: E402

warnings.filterwarnings("ignore")

import z3  # noqa: E402,F401
import pandas  # noqa: E402,F401
import pysmt.shortcuts  # noqa: E402,F401
from pysmt.environment import get_env  # noqa: E402
import pysat.examples.rc2  # noqa: E402,F401
import inference.inference_manager  # noqa: E402,F401
import inference.preocf  # noqa: E402,F401
import inference.c_revision  # noqa: E402,F401
import inference.c_revision_model  # noqa: E402,F401
import inference.queries  # noqa: E402,F401
import parser.Wrappers  # noqa: E402,F401

seams.install_solver_seams()
seams.install_deadline_probe()
seams.install_hash_seam()
from sim import simmp, simfs  # noqa: E402

simmp.install()
simfs.install()
get_env().factory.all_solvers()

import engines  # noqa: E402


def _run_job(job):
    try:
        bad = seams.verify_bindings()
        if bad:
            return {"harness_error": "seam not bound: %s" % ", ".join(bad)}
        fn = engines.resolve(job["engine"], job["func"])
        return fn(job["doc"])
    except seams.HarnessError as e:
        return {"harness_error": "HarnessError: %s" % e, "tb": traceback.format_exc()[-3000:]}
    except BaseException as e:  # noqa: BLE001
        return {"harness_error": "%s: %s" % (type(e).__name__, e), "tb": traceback.format_exc()[-3000:]}


def _read_exact(fd, n):
    data = b""
    while len(data) < n:
        b = os.read(fd, n - len(data))
        if not b:
            return None
        data += b
    return data


def _child_main(job_r, res_w):
    """Runs in a fresh fork of the pristine fork server: read one job, execute it, answer."""
    try:
        os.setpgid(0, 0)
        import faulthandler

        faulthandler.enable()
        hdr = _read_exact(job_r, 8)
        job = json.loads(_read_exact(job_r, int.from_bytes(hdr, "big")).decode())
        res = _run_job(job)
        data = json.dumps(res, default=str).encode()
    except BaseException:  # noqa: BLE001
        data = json.dumps({"harness_error": traceback.format_exc()[-3000:]}).encode()
    try:
        data = len(data).to_bytes(8, "big") + data
        off = 0
        while off < len(data):
            off += os.write(res_w, data[off : off + 65536])
    finally:
        os._exit(0)


def _one_cycle(ctrl_r, ack_w, job_r, res_w):
    b = os.read(ctrl_r, 1)
    if not b or b == b"q":
        return False
    pid = os.fork()
    if pid == 0:
        if b == b"w":  # warm-up cycle: same system calls, no job
            os._exit(0)
        _child_main(job_r, res_w)
    os.write(ack_w, b"p" + pid.to_bytes(8, "big"))
    os.waitpid(pid, 0)
    os.write(ack_w, b"d")
    return True


def _fork_server(ctrl_r, ack_w, job_r, res_w):
    """The pristine process.  It never parses a job and does the same few system calls per job,
    holding no object from one cycle to the next, so that its heap - and therefore the memory image
    (object addresses included) every scenario child starts from - does not depend on which or how
    many jobs were served before."""
    while _one_cycle(ctrl_r, ack_w, job_r, res_w):
        pass


def _dispatch_one(job, out, ctrl_w, ack_r, job_w, res_r):
    wall_cap = float(job.get("wall_cap", 60))
    data = json.dumps(job).encode()
    payload = len(data).to_bytes(8, "big") + data
    off = 0
    if len(payload) <= 60000:
        # the whole job sits in the pipe before the child exists: the child reads it with exactly two
        # read() calls, whatever the timing (allocation patterns are part of the repeatable execution)
        while off < len(payload):
            off += os.write(job_w, payload[off:])
    # Objects of one size class that are freed in allocation order swap places in the allocator's
    # LIFO free list, so the fork server's heap alternates with period 2 from cycle to cycle; an empty
    # cycle before every job keeps all scenario children on the same phase.
    os.write(ctrl_w, b"w")
    _read_exact(ack_r, 9)
    _read_exact(ack_r, 1)
    os.write(ctrl_w, b"j")
    hdr = _read_exact(ack_r, 9)
    pid = int.from_bytes(hdr[1:], "big")
    deadline = seams.REAL["monotonic"]() + wall_cap
    buf = b""
    need = None
    done = False
    timed_out = False
    while True:
        left = deadline - seams.REAL["monotonic"]()
        if left <= 0 and not timed_out:
            timed_out = True
            try:
                os.killpg(pid, signal.SIGKILL)
            except Exception:  # noqa: BLE001
                try:
                    os.kill(pid, signal.SIGKILL)
                except Exception:  # noqa: BLE001
                    pass
        wl = [job_w] if off < len(payload) and not timed_out else []
        rl, wl2, _ = select.select([res_r, ack_r], wl, [], 1.0 if not timed_out else 5.0)
        if job_w in wl2:
            try:
                off += os.write(job_w, payload[off : off + 32768])
            except OSError:
                off = len(payload)
        if res_r in rl:
            b = os.read(res_r, 1 << 16)
            if b:
                buf += b
                if need is None and len(buf) >= 8:
                    need = int.from_bytes(buf[:8], "big")
        if ack_r in rl:
            b = os.read(ack_r, 1)
            if b == b"d" or not b:
                done = True
        if done:
            # the child is gone: take whatever is still in the result pipe
            while True:
                r2, _, _ = select.select([res_r], [], [], 0)
                if not r2:
                    break
                b = os.read(res_r, 1 << 16)
                if not b:
                    break
                buf += b
                if need is None and len(buf) >= 8:
                    need = int.from_bytes(buf[:8], "big")
            break
    try:
        # orphans left in the child's process group (done here, not in the fork server, whose
        # allocation pattern must not depend on whether there were any)
        os.killpg(pid, signal.SIGKILL)
    except Exception:  # noqa: BLE001
        pass
    if timed_out:
        reply = {"id": job.get("id"), "result": {"harness_error": "wall cap %.0fs exceeded" % wall_cap}}
    elif need is not None and len(buf) >= 8 + need:
        try:
            reply = {"id": job.get("id"), "result": json.loads(buf[8 : 8 + need].decode())}
        except Exception:  # noqa: BLE001
            reply = {"id": job.get("id"), "result": {"harness_error": "unreadable result from the scenario child"}}
    else:
        reply = {"id": job.get("id"), "result": {"harness_error": "child died with %d bytes of output" % len(buf)}}
    out.write(json.dumps(reply) + "\n")
    out.flush()


def main():
    out = os.fdopen(os.dup(1), "w")
    # anything the code under test prints must not corrupt the protocol
    devnull = os.open(os.devnull, os.O_WRONLY)
    os.dup2(devnull, 1)
    ctrl_r, ctrl_w = os.pipe()
    ack_r, ack_w = os.pipe()
    job_r, job_w = os.pipe()
    res_r, res_w = os.pipe()
    pid = os.fork()
    if pid != 0:
        # this process stays pristine and only forks
        for fd in (ctrl_w, ack_r, job_w, res_r, 0):
            try:
                os.close(fd)
            except OSError:
                pass
        try:
            _fork_server(ctrl_r, ack_w, job_r, res_w)
        finally:
            try:
                os.waitpid(pid, 0)
            except Exception:  # noqa: BLE001
                pass
        return
    # the dispatcher: talks to the pool, never runs a scenario itself
    for fd in (ctrl_r, ack_w, job_r, res_w):
        os.close(fd)
    # a few warm-up cycles bring the fork server into its steady state (lazily initialised
    # interpreter internals), so that the FIRST scenario child equals all later ones
    for _ in range(4):
        os.write(ctrl_w, b"w")
        _read_exact(ack_r, 9)
        _read_exact(ack_r, 1)
    out.write(json.dumps({"ready": True, "pid": os.getpid()}) + "\n")
    out.flush()
    try:
        for line in sys.stdin:
            line = line.strip()
            if not line:
                continue
            job = json.loads(line)
            if job.get("quit"):
                break
            _dispatch_one(job, out, ctrl_w, ack_r, job_w, res_r)
    finally:
        try:
            os.write(ctrl_w, b"q")
        except OSError:
            pass
        os._exit(0)


if __name__ == "__main__":
    main()
