"""SimFS: in-memory file system seen by ``inference.preocf`` through the name ``pathlib``.

Files are byte strings in a dict.  Writers are buffered with a seeded buffer size, so an injected
raw-write error surfaces either inside ``pickle.dump``/``json.dump`` (buffer overflows) or at
``close()``/``with``-exit (final flush).  Injectable: open errors, raw write error at byte k
(torn prefix is kept), close/flush error.
"""
import errno
import io
import os
import pathlib as real_pathlib

from sim import seams

ERRNOS = {
    "EACCES": errno.EACCES,
    "ENOENT": errno.ENOENT,
    "EISDIR": errno.EISDIR,
    "EROFS": errno.EROFS,
    "ENOSPC": errno.ENOSPC,
    "EIO": errno.EIO,
    "EDQUOT": errno.EDQUOT,
}


class FS:
    def __init__(self, bufsize=8192):
        self.files = {}
        self.bufsize = int(bufsize)
        self.fault = None  # armed for the next open-for-write
        self.stats = {"opens_w": 0, "opens_r": 0, "raw_writes": 0, "buffered_only": 0}
        self.last_written = None

    def arm(self, fault):
        self.fault = dict(fault) if fault else None

    def take_fault(self):
        f, self.fault = self.fault, None
        return f


CURRENT = None  # the FS of the running scenario


def fs():
    if CURRENT is None:
        raise seams.HarnessError("SimFS used without an active file system")
    return CURRENT


def _oserror(name, path):
    return OSError(ERRNOS[name], os.strerror(ERRNOS[name]), str(path))


class SimWriter:
    """Buffered writer over the in-memory raw file."""

    def __init__(self, fsys, key, text, fault):
        self.fs = fsys
        self.key = key
        self.text = text
        self.fault = fault
        self.buf = bytearray()
        self.raw = bytearray()
        self.closed = False
        self.failed = False
        fsys.files[key] = b""  # O_TRUNC
        fsys.last_written = key

    def writable(self):
        return True

    def fileno(self):
        return -1

    def tell(self):
        return len(self.raw) + len(self.buf)

    def _raw_write(self, data):
        f = self.fault
        self.fs.stats["raw_writes"] += 1
        if f and f["kind"] == "write":
            k = int(f["at"])
            if len(self.raw) + len(data) > k:
                keep = max(0, k - len(self.raw))
                self.raw += data[:keep]
                self.fs.files[self.key] = bytes(self.raw)
                self.failed = True
                s = seams.SIM
                if s is not None:
                    s.fire("fs_write_" + f["errno"])
                    s.trace("fs.write_error", self.key, k, f["errno"])
                raise _oserror(f["errno"], self.key)
        self.raw += data
        self.fs.files[self.key] = bytes(self.raw)

    def write(self, data):
        if self.closed:
            raise ValueError("write to closed file")
        if self.text:
            if not isinstance(data, str):
                raise TypeError("write() argument must be str, not %s" % type(data).__name__)
            b = data.encode("utf-8")
        else:
            if isinstance(data, str):
                raise TypeError("a bytes-like object is required, not 'str'")
            b = bytes(data)
        self.buf += b
        if len(self.buf) > self.fs.bufsize:
            chunk, self.buf = bytes(self.buf), bytearray()
            self._raw_write(chunk)
        return len(data)

    def flush(self):
        if self.buf:
            chunk, self.buf = bytes(self.buf), bytearray()
            self._raw_write(chunk)

    def close(self):
        if self.closed:
            return
        self.closed = True
        f = self.fault
        try:
            if self.buf and self.fs.stats is not None and not self.raw:
                self.fs.stats["buffered_only"] += 1
            if f and f["kind"] == "close":
                # the final flush fails: what was still buffered never reaches the file
                self.failed = True
                lost = len(self.buf)
                self.buf = bytearray()
                s = seams.SIM
                if s is not None:
                    s.fire("fs_close_" + f["errno"])
                    s.trace("fs.close_error", self.key, f["errno"], lost)
                raise _oserror(f["errno"], self.key)
            self.flush()
        finally:
            s = seams.SIM
            if s is not None:
                s.trace("fs.close", self.key, len(self.fs.files.get(self.key, b"")))

    def __enter__(self):
        return self

    def __exit__(self, et, ev, tb):
        # like io objects: close() runs even when the body raised; a close error then
        # surfaces only if the body did not raise
        if et is None:
            self.close()
        else:
            try:
                self.close()
            except OSError:
                pass
        return False


class SimPath:
    def __init__(self, *parts):
        self._p = real_pathlib.PurePosixPath(*[str(p) for p in parts])

    # -- pure path behaviour -----------------------------------------------------------
    @property
    def suffix(self):
        return self._p.suffix

    @property
    def name(self):
        return self._p.name

    @property
    def stem(self):
        return self._p.stem

    @property
    def parent(self):
        return SimPath(self._p.parent)

    def with_suffix(self, s):
        return SimPath(self._p.with_suffix(s))

    def __truediv__(self, other):
        return SimPath(self._p / str(other))

    def __str__(self):
        return str(self._p)

    def __repr__(self):
        return "SimPath(%r)" % str(self._p)

    def __fspath__(self):
        return str(self._p)

    def __eq__(self, other):
        return isinstance(other, SimPath) and other._p == self._p

    def __hash__(self):
        return hash(self._p)

    def resolve(self, strict=False):
        # the simulated working directory is the root: an absolute path names the same file
        return SimPath("/" + str(self._p).lstrip("/"))

    def absolute(self):
        return self.resolve()

    # -- file system behaviour -----------------------------------------------------------
    def _key(self):
        return str(self._p).lstrip("/") or "/"

    def exists(self):
        return self._key() in fs().files

    def is_file(self):
        return self.exists()

    def is_dir(self):
        return False

    def stat(self):
        data = fs().files.get(self._key())
        if data is None:
            raise _oserror("ENOENT", self)
        return os.stat_result((0o100644, 0, 0, 1, 0, 0, len(data), 0, 0, 0))

    def unlink(self, missing_ok=False):
        if self._key() in fs().files:
            del fs().files[self._key()]
        elif not missing_ok:
            raise _oserror("ENOENT", self)

    def mkdir(self, *a, **kw):
        return None

    def open(self, mode="r", *a, **kw):
        fsys = fs()
        s = seams.SIM
        key = self._key()
        if "w" in mode or "a" in mode or "x" in mode:
            fsys.stats["opens_w"] += 1
            fault = fsys.take_fault()
            if s is not None:
                s.trace("fs.open_w", key, mode, (fault or {}).get("kind"))
            if fault and fault["kind"] == "open":
                if s is not None:
                    s.fire("fs_open_" + fault["errno"])
                raise _oserror(fault["errno"], self)
            if "a" in mode:
                raise seams.HarnessError("append mode not modelled")
            return SimWriter(fsys, key, "b" not in mode, fault)
        fsys.stats["opens_r"] += 1
        if s is not None:
            s.trace("fs.open_r", key, mode)
        data = fsys.files.get(key)
        if data is None:
            raise FileNotFoundError(errno.ENOENT, os.strerror(errno.ENOENT), key)
        if "b" in mode:
            return io.BytesIO(data)
        return io.StringIO(data.decode("utf-8"))

    def read_text(self, *a, **kw):
        with self.open("r") as f:
            return f.read()

    def read_bytes(self):
        with self.open("rb") as f:
            return f.read()

    def write_text(self, data, *a, **kw):
        with self.open("w") as f:
            f.write(data)
        return len(data)

    def write_bytes(self, data):
        with self.open("wb") as f:
            f.write(data)
        return len(data)


class _PathlibShim:
    """What ``inference.preocf`` sees under the name ``pathlib`` while a SimFS is active."""

    PurePosixPath = real_pathlib.PurePosixPath
    PurePath = real_pathlib.PurePath

    @property
    def Path(self):
        return SimPath if CURRENT is not None else real_pathlib.Path

    def __getattr__(self, name):
        return getattr(real_pathlib, name)


SHIM = _PathlibShim()


# --------------------------------------------------------------------------------------
# other ways of reaching the file system from inference.preocf (legitimate refactorings):
# the built-in open(), and the os / tempfile modules
# --------------------------------------------------------------------------------------
import builtins as _builtins


def _is_sim_target(p):
    return CURRENT is not None and isinstance(p, (str, SimPath, real_pathlib.PurePath)) and not str(p).startswith(("/proc", "/dev", "/sys", "/usr", "/venv", "/opt"))


def sim_open(file, mode="r", *a, **kw):
    if _is_sim_target(file):
        return SimPath(str(file)).open(mode)
    return _builtins.open(file, mode, *a, **kw)


class _OsPathShim:
    def __init__(self, real):
        self._real = real

    def exists(self, p):
        return SimPath(str(p)).exists() if _is_sim_target(p) else self._real.exists(p)

    def isfile(self, p):
        return SimPath(str(p)).exists() if _is_sim_target(p) else self._real.isfile(p)

    def isdir(self, p):
        return False if _is_sim_target(p) else self._real.isdir(p)

    def getsize(self, p):
        return SimPath(str(p)).stat().st_size if _is_sim_target(p) else self._real.getsize(p)

    def __getattr__(self, name):
        return getattr(self._real, name)


class _OsShim:
    """What inference.preocf sees under the name ``os`` (only if it imports os at all)."""

    def __init__(self, real):
        self._real = real
        self.path = _OsPathShim(real.path)

    def replace(self, src, dst, **kw):
        if _is_sim_target(src):
            fsys = fs()
            a, b = SimPath(str(src))._key(), SimPath(str(dst))._key()
            if a not in fsys.files:
                raise FileNotFoundError(errno.ENOENT, os.strerror(errno.ENOENT), a)
            fsys.files[b] = fsys.files.pop(a)
            s = seams.SIM
            if s is not None:
                s.trace("fs.replace", a, b)
            return None
        return self._real.replace(src, dst, **kw)

    rename = replace

    def remove(self, p, **kw):
        if _is_sim_target(p):
            return SimPath(str(p)).unlink()
        return self._real.remove(p, **kw)

    unlink = remove

    def fsync(self, fd):
        if CURRENT is not None:
            return None
        return self._real.fsync(fd)

    def makedirs(self, p, *a, **kw):
        if _is_sim_target(p):
            return None
        return self._real.makedirs(p, *a, **kw)

    # -- descriptor-level writing: os.open(path, O_WRONLY|O_CREAT|O_TRUNC) + os.fdopen(fd, "wb") -----
    _FD_BASE = 900000

    def open(self, path, flags, mode=0o777, **kw):
        if not _is_sim_target(path):
            return self._real.open(path, flags, mode, **kw)
        fsys = fs()
        key = SimPath(str(path))._key()
        writing = bool(flags & (self._real.O_WRONLY | self._real.O_RDWR))
        if flags & self._real.O_APPEND:
            raise seams.HarnessError("os.open(O_APPEND) is not modelled by SimFS")
        table = fsys.__dict__.setdefault("fds", {})
        fd = self._FD_BASE + len(table)
        if writing:
            fsys.stats["opens_w"] += 1
            fault = fsys.take_fault()
            s = seams.SIM
            if s is not None:
                s.trace("fs.os_open_w", key, (fault or {}).get("kind"))
            if fault and fault["kind"] == "open":
                if s is not None:
                    s.fire("fs_open_" + fault["errno"])
                raise _oserror(fault["errno"], key)
            if not (flags & self._real.O_CREAT) and key not in fsys.files:
                raise _oserror("ENOENT", key)
            if (flags & self._real.O_TRUNC) or key not in fsys.files:
                fsys.files[key] = b""
            table[fd] = ("w", key, fault)
        else:
            if key not in fsys.files:
                raise _oserror("ENOENT", key)
            table[fd] = ("r", key, None)
        return fd

    def fdopen(self, fd, mode="r", *a, **kw):
        table = fs().__dict__.get("fds", {}) if CURRENT is not None else {}
        if fd not in table:
            return self._real.fdopen(fd, mode, *a, **kw)
        kind, key, fault = table.pop(fd)
        if kind == "w":
            if "w" not in mode and "a" not in mode and "+" not in mode:
                raise seams.HarnessError("fdopen mode %r on a write descriptor" % mode)
            return SimWriter(fs(), key, "b" not in mode, fault)
        data = fs().files[key]
        return io.BytesIO(data) if "b" in mode else io.StringIO(data.decode("utf-8"))

    def close(self, fd):
        table = fs().__dict__.get("fds", {}) if CURRENT is not None else {}
        if fd in table:
            table.pop(fd)
            return None
        return self._real.close(fd)

    def write(self, fd, data):
        table = fs().__dict__.get("fds", {}) if CURRENT is not None else {}
        if fd in table:
            raise seams.HarnessError("os.write on a simulated descriptor is not modelled by SimFS")
        return self._real.write(fd, data)

    def __getattr__(self, name):
        return getattr(self._real, name)


class _TempfileShim:
    def __init__(self, real):
        self._real = real
        self._n = 0

    def NamedTemporaryFile(self, mode="w+b", *a, dir=None, prefix="tmp", suffix="", delete=True, **kw):  # noqa: N802
        if CURRENT is None:
            return self._real.NamedTemporaryFile(mode, *a, dir=dir, prefix=prefix, suffix=suffix, delete=delete, **kw)
        if delete:
            raise seams.HarnessError("NamedTemporaryFile(delete=True) is not modelled by SimFS")
        self._n += 1
        name = "%s/%s%d%s" % (str(dir).rstrip("/") if dir else "tmp", prefix, self._n, suffix)
        w = SimPath(name).open("wb" if "b" in mode else "w")
        w.name = name
        return w

    def mkstemp(self, *a, **kw):
        if CURRENT is not None:
            raise seams.HarnessError("tempfile.mkstemp is not modelled by SimFS")
        return self._real.mkstemp(*a, **kw)

    def __getattr__(self, name):
        return getattr(self._real, name)


def install():
    import inference.preocf as P

    P.pathlib = SHIM
    P.open = sim_open  # a module global shadows the built-in
    if hasattr(P, "os"):
        P.os = _OsShim(P.os)
    if hasattr(P, "tempfile"):
        P.tempfile = _TempfileShim(P.tempfile)
    if hasattr(P, "Path"):  # `from pathlib import Path`
        P.Path = _PathCallable()


class _PathCallable:
    """Stands in for a directly imported ``Path`` class."""

    def __call__(self, *parts):
        return SimPath(*parts) if CURRENT is not None else real_pathlib.Path(*parts)

    def __instancecheck__(self, obj):
        return isinstance(obj, (SimPath, real_pathlib.Path))

    def __getattr__(self, name):
        return getattr(real_pathlib.Path, name)


def activate(bufsize=8192):
    global CURRENT
    CURRENT = FS(bufsize)
    return CURRENT


def deactivate():
    global CURRENT
    CURRENT = None
