"""Sensitivity self-test: every seeded change under /verif/seeded/<id>/ (patch.diff + meta.json)
is applied to a scratch worktree of /repo outside /repo and /verif, the quick check of its property
is run against that tree and must report a VIOLATION (exit 1); the unpatched tree must stay clean.
Scratch trees are removed as soon as each change has been judged."""
import json
import os
import shutil
import subprocess
import sys
import tempfile

VERIF = os.path.dirname(os.path.dirname(os.path.abspath(__file__)))
SEEDED = os.path.join(VERIF, "seeded")


def _sh(cmd, cwd=None, env=None, timeout=3600):
    e = dict(os.environ)
    e.update(env or {})
    p = subprocess.run(cmd, shell=True, cwd=cwd, env=e, capture_output=True, text=True, timeout=timeout)
    return p.returncode, p.stdout + p.stderr


def judge(mid, tier="quick", keep_output=False, root=None):
    d = os.path.join(root or SEEDED, mid)
    meta = json.load(open(os.path.join(d, "meta.json")))
    prop = meta["property"]
    wt = tempfile.mkdtemp(prefix="infocf-verif-mut-")
    scratch = tempfile.mkdtemp(prefix="infocf-verif-out-")
    os.rmdir(wt)
    try:
        rc, out = _sh("git -C /repo worktree add -q --detach %s HEAD" % wt)
        if rc != 0:
            return {"id": mid, "error": "worktree: " + out[-300:]}
        # uncommitted edits of /repo's working tree belong to the tree under test as well
        rc, out = _sh("git -C /repo diff HEAD | git -C %s apply --allow-empty -" % wt)
        rc, out = _sh("git apply %s" % os.path.join(d, "patch.diff"), cwd=wt)
        if rc != 0:
            return {"id": mid, "property": prop, "error": "patch does not apply: " + out[-300:]}
        env = {"VERIF_REPO": wt, "VERIF_REPLAY_DIR": os.path.join(scratch, "replays"), "VERIF_EVIDENCE_DIR": os.path.join(scratch, "evidence")}
        rc, out = _sh("./check %s %s" % (prop, tier), cwd=VERIF, env=env)
        lines = [l for l in out.splitlines() if l.startswith(("VIOLATION", "  class=", "HARNESS-ERROR", "KNOWN-FINDING"))]
        classes = sorted({l.split("class=")[1].split()[0] for l in lines if l.startswith("  class=")})
        return {"id": mid, "property": prop, "rc": rc, "detected": rc == 1, "classes": classes, "lines": [l[:300] for l in lines[:8]] if keep_output else None}
    finally:
        _sh("git -C /repo worktree remove --force %s" % wt)
        shutil.rmtree(wt, ignore_errors=True)
        shutil.rmtree(scratch, ignore_errors=True)
        _sh("git -C /repo worktree prune")


def main(argv):
    tier = "thorough" if "--thorough" in argv else "quick"
    ids = [a for a in argv if not a.startswith("-")] or sorted(x for x in os.listdir(SEEDED) if os.path.isfile(os.path.join(SEEDED, x, "patch.diff")))
    missed, errors = [], []
    for mid in ids:
        r = judge(mid, tier=tier, keep_output=True)
        print(json.dumps(r))
        sys.stdout.flush()
        meta = json.load(open(os.path.join(SEEDED, mid, "meta.json")))
        if r.get("error") or r.get("rc") == 2:
            errors.append(mid)
        elif not r.get("detected"):
            if meta.get("known_missed"):
                print("  (%s is documented as NOT caught: see its meta.json and DESIGN.md section 9)" % mid)
            elif meta.get("quick_seed_dependent") and tier == "quick":
                print("  (%s is documented as caught by quick for some VERIF_SEED values only: see its meta.json)" % mid)
            elif meta.get("expected_quick") == "miss" and tier == "quick":
                print("  (%s is documented as caught by the thorough tier only)" % mid)
            else:
                missed.append(mid)
    print("selftest-mutants: %d changes, %d missed %s, %d errors %s" % (len(ids), len(missed), missed, len(errors), errors))
    return 0 if not missed and not errors else 1


NEUTRAL = os.path.join(VERIF, "neutral")


def main_neutral(argv):
    """False-alarm control: behaviour-preserving changes under /verif/neutral/<id>/ must leave the
    check of their property silent (exit 0)."""
    tier = "thorough" if "--thorough" in argv else "quick"
    ids = [a for a in argv if not a.startswith("-")] or sorted(x for x in os.listdir(NEUTRAL) if os.path.isfile(os.path.join(NEUTRAL, x, "patch.diff")))
    alarms, errors = [], []
    for mid in ids:
        r = judge(mid, tier=tier, keep_output=True, root=NEUTRAL)
        print(json.dumps(r))
        sys.stdout.flush()
        if r.get("error") or r.get("rc") == 2:
            errors.append(mid)
        elif r.get("rc") != 0:
            alarms.append(mid)
    print("selftest-neutral: %d behaviour-preserving changes, %d false alarms %s, %d harness errors %s" % (len(ids), len(alarms), alarms, len(errors), errors))
    return 0 if not alarms and not errors else 1
