"""Self tests of the simulator: setup (imports, seam bindings), determinism, sensitivity."""
import json
import os
import sys

from sim.pool import Pool


def setup():
    try:
        with Pool(2) as pool:
            res = pool.run_one({"id": 0, "engine": "selfcheck", "func": "bindings", "doc": {}, "wall_cap": 60})
    except Exception as e:  # noqa: BLE001
        print("HARNESS-ERROR cannot start zygote workers: %s" % e)
        return 2
    if res.get("harness_error") or res.get("bad"):
        print("HARNESS-ERROR setup: %s" % (res.get("harness_error") or res.get("bad")))
        return 2
    print("setup ok: %s" % json.dumps(res))
    return 0


def determinism(seed, n=None, verbose=True):
    """Each scenario twice per configuration: different workers, worker counts 4 and 16,
    PYTHONHASHSEED 0 and 12345 in fresh interpreters; full event traces compared by digest."""
    import importlib

    from sim import driver

    n = n or int(os.environ.get("VERIF_DET_N") or 48)
    plans = []
    for prop in ("C13", "C14", "C16", "C19", "C20"):
        try:
            eng = importlib.import_module("engines." + driver.ENGINE_OF[prop])
            eng.SPECS[prop]
        except Exception:  # noqa: BLE001
            continue
        for i in range(n):
            plans.append((prop, eng, i))
    runs = {}
    addrs = {}
    bad = []
    for nworkers, hs in ((16, "0"), (4, "12345"), (16, "12345"), (5, "0")):
        with Pool(nworkers, hashseed=hs) as pool:
            jobs = [{"id": "%s/%d" % (p, i), "engine": e.NAME, "func": "execute", "doc": e.generate(p, seed, i), "wall_cap": 180} for p, e, i in plans]
            if (nworkers, hs) != (16, "0"):
                jobs.reverse()
            for job, res in pool.imap(jobs):
                if "harness_error" in res:
                    bad.append((job["id"], "harness error: " + res["harness_error"]))
                    continue
                d = res["digest"]
                if job["id"] in runs and runs[job["id"]] != d:
                    bad.append((job["id"], "digest differs (workers=%d, PYTHONHASHSEED=%s)" % (nworkers, hs)))
                runs.setdefault(job["id"], d)
                # object addresses must repeat as well when PYTHONHASHSEED is the same
                if hs == "0" and res.get("addr_digest"):
                    if job["id"] in addrs and addrs[job["id"]] != res["addr_digest"]:
                        bad.append((job["id"], "object addresses differ (workers=%d, PYTHONHASHSEED=%s)" % (nworkers, hs)))
                    addrs.setdefault(job["id"], res["addr_digest"])
    for b in bad[:20]:
        print("HARNESS-ERROR nondeterminism %s: %s" % b)
    print("determinism self-test: %d scenarios x 4 configurations (trace digests; object addresses between the two PYTHONHASHSEED=0 runs of %d scenarios), %d problems" % (len(plans), len(addrs), len(bad)))
    return 2 if bad else 0


def mutants(argv):
    from sim import mutants as M

    return M.main(argv)
