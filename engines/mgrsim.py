"""mgrsim: simulation of InferenceManager call histories (C13) and time budgets (C14).

Child side (runs in a fork of the zygote): ``job_execute`` / ``job_sweep``.
Parent side (pure python, no repository code): ``generate``.
"""
import hashlib
import json
import os
import pickle
import traceback

from sim import seams, simmp
from sim.prng import derive, stream

SYSTEMS = ["p-entailment", "system-z", "system-w", "c-inference", "lex_inf"]
RC2_BACKENDS = ["rc2", "rc2-g4", "rc2-m22", "rc2-g3", "rc2-mgh"]
FLAG_COLS = ("inference_timed_out", "preprocessing_timed_out")


# ======================================================================================
# child side
# ======================================================================================
def _norm_bool(x):
    import numpy as np

    if isinstance(x, (bool, np.bool_)):
        return bool(x)
    return "non-bool:%r" % (x,)


def _norm_int(x):
    import numpy as np

    if isinstance(x, (int, np.integer)) and not isinstance(x, (bool, np.bool_)):
        return int(x)
    return "non-int:%r" % (x,)


def _rows(df):
    out = []
    for i in range(len(df)):
        r = df.iloc[i]
        out.append(
            {
                "index": _norm_int(r["index"]),
                "query": r["query"] if isinstance(r["query"], str) else "non-str:%r" % (r["query"],),
                "result": _norm_bool(r["result"]),
                "ito": _norm_bool(r["inference_timed_out"]),
                "pto": _norm_bool(r["preprocessing_timed_out"]),
            }
        )
    return out


class Phase:
    """One execution of the operation list (twin or run under test)."""

    def __init__(self, doc, S, name, zero_budgets, faults):
        from parser.Wrappers import parse_belief_base

        self.doc = doc
        self.S = S
        self.name = name
        self.zero = zero_budgets
        S.begin_phase(name, faults)
        self.bb = parse_belief_base(doc["base"]["text"])
        self.bb2 = parse_belief_base(doc["base2"]["text"]) if doc.get("base2") else None
        self.managers = []
        self.records = []
        self.mp_orders = []
        self.auto_budget = None

    def _query_cond(self, text):
        from parser.Wrappers import parseQuery

        d = parseQuery(text)
        if len(d) != 1:
            raise seams.HarnessError("query text %r did not parse to one conditional" % text)
        return list(d.values())[0]

    def run(self):
        from inference.inference_manager import InferenceManager
        from inference.queries import Queries

        S = self.S
        for i, op in enumerate(self.doc["ops"]):
            S.begin_op(i)
            rec = {"op": i, "kind": op["op"], "exc": None}
            if op["op"] == "new_manager":
                try:
                    m = InferenceManager(self.bb2 if int(op.get("base", 1)) == 2 else self.bb, op["system"], "z3", op["pmaxsat"], op["weakly"])
                except Exception as e:  # noqa: BLE001
                    m = None
                    rec["exc"] = type(e).__name__
                    rec["msg"] = str(e)[:200]
                self.managers.append(m)
            elif op["op"] == "inference":
                m = self.managers[op["mgr"]]
                if m is None:
                    rec["exc"] = "NoManager"
                    self.records.append(rec)
                    continue
                conds = {}
                same = {}
                for key, text in op["batch"]:
                    if op.get("alias"):
                        # the SAME Conditional object submitted under several keys
                        if text not in same:
                            same[text] = self._query_cond(text)
                        conds[int(key)] = same[text]
                    else:
                        conds[int(key)] = self._query_cond(text)
                q = Queries(conds)
                # object addresses are part of the repeatable execution (pristine fork server, no ASLR)
                S.trace_addr([id(c) & 0xFFFFFFF for c in conds.values()][:4])
                kw = {}
                if not self.zero:
                    kw = dict(
                        total_timeout=op.get("total", 0),
                        preprocessing_timeout=op.get("pre", 0),
                        inference_timeout=op.get("inf", 0),
                    )
                elif op.get("inf") == "auto" and self.auto_budget is not None:
                    # a per-query budget that every query of the batch, asked alone on a fresh
                    # manager (preprocessing included), undercuts by a third in virtual time
                    b = self.auto_budget(op)
                    if b:
                        kw = dict(inference_timeout=b)
                        rec["auto_inf"] = b
                simmp.SIMMP.state = simmp.MPState(op.get("latencies") or [])
                t0 = S.now
                err0 = S.fired.get("error", 0)
                try:
                    df = m.inference(q, multi_inference=bool(op.get("multi")), **kw)
                    rec["rows"] = _rows(df)
                except seams.HarnessError:
                    raise
                except Exception as e:  # noqa: BLE001
                    rec["exc"] = type(e).__name__
                    rec["msg"] = str(e)[:300]
                    rec["tb"] = traceback.format_exc()[-800:]
                if S.fired.get("error", 0) > err0 and not op.get("multi"):
                    rec["solver_error_injected"] = True
                st = simmp.SIMMP.state
                rec["leftovers"] = st.leftovers()
                if st.processes:
                    rec["order"] = st.completion_order()
                    self.mp_orders.append(rec["order"])
                    rec["worker_status"] = [p.status for p in st.processes]
                    # which query keys had a worker that the parent killed, or that died by itself
                    excused = []
                    for p in st.processes:
                        key = next((a for a in p.args if isinstance(a, int) and not isinstance(a, bool)), None)
                        if p.started and (p.terminated_at is not None or p.status not in (0, None)):
                            excused.append(key)
                    rec["excused_keys"] = excused
                simmp.SIMMP.state = None
                rec["vt"] = round(S.now - t0, 6)
                S.vtime_total += S.now - t0
                # leftover real children of the scenario process would be a harness problem
                try:
                    pid, _ = os.waitpid(-1, os.WNOHANG)
                    if pid:
                        raise seams.HarnessError("unreaped real child %d" % pid)
                except ChildProcessError:
                    pass
            else:
                raise seams.HarnessError("unknown op %r" % op["op"])
            S.trace("rec", json.dumps({k: v for k, v in rec.items() if k not in ("tb", "vt")}, sort_keys=True, default=str))
            self.records.append(rec)
        return self.records


def _base_text(doc, base_no):
    return doc["base"]["text"] if int(base_no or 1) == 1 else doc["base2"]["text"]


def _rkey(cfg, text):
    return "%s|%s|%s|%s|%s" % (cfg[0], cfg[1], cfg[2], cfg[3], text)


def _one_reference(doc, cfg, text, S):
    """Runs in a pristine fork: the query alone, fresh base object, fresh manager, one call."""
    from inference.inference_manager import InferenceManager
    from parser.Wrappers import parse_belief_base, parse_queries

    try:
        t0 = S.now
        bb = parse_belief_base(_base_text(doc, cfg[3]))
        m = InferenceManager(bb, cfg[0], "z3", cfg[1], cfg[2])
        df = m.inference(parse_queries(text))
        vt = S.now - t0
        if len(df) != 1:
            return {"harness_error": "reference call returned %d rows" % len(df)}
        r = _rows(df)[0]
        if r["ito"] is not False or r["pto"] is not False:
            return {"harness_error": "reference row flagged without budgets"}
        return {"result": r["result"], "vt": vt}
    except seams.HarnessError as e:
        return {"harness_error": str(e)}
    except Exception as e:  # noqa: BLE001
        return {"exc": type(e).__name__}


def _reference_answers(doc, S):
    """C13 reference: each query, alone, on a fresh manager over a fresh base object, sequentially,
    no budgets - and in a process of its own (a fork of the still pristine scenario child), so that
    nothing another manager or another base left behind in the process can reach it."""
    S.begin_phase("reference", [])
    S.begin_op(-1)
    refs = {}
    cfgs = {}
    for op in doc["ops"]:
        if op["op"] == "new_manager":
            cfgs[len(cfgs)] = (op["system"], op["pmaxsat"], bool(op["weakly"]), int(op.get("base", 1)))
    for op in doc["ops"]:
        if op["op"] != "inference":
            continue
        cfg = cfgs[op["mgr"]]
        for _, text in op["batch"]:
            key = _rkey(cfg, text)
            if key in refs:
                continue
            r, w = os.pipe()
            pid = os.fork()
            if pid == 0:
                try:
                    os.close(r)
                    os.write(w, pickle.dumps(_one_reference(doc, cfg, text, S)))
                finally:
                    os._exit(0)
            os.close(w)
            chunks = []
            while True:
                bts = os.read(r, 1 << 16)
                if not bts:
                    break
                chunks.append(bts)
            os.close(r)
            os.waitpid(pid, 0)
            try:
                res = pickle.loads(b"".join(chunks))
            except Exception:  # noqa: BLE001
                raise seams.HarnessError("reference child died")
            if "harness_error" in res:
                raise seams.HarnessError(res["harness_error"])
            refs[key] = res
            S.trace("ref", key, res.get("result"), res.get("exc"))
    return refs, cfgs


# --------------------------------------------------------------------------------------
# oracles
# --------------------------------------------------------------------------------------
def _viol(cls, op, row=None, **detail):
    return {"class": cls, "op": op, "row": row, "detail": detail}


def judge_c13(doc, refs, cfgs, records):
    out = []
    stall = doc.get("class") == "stall"
    for rec in records:
        if rec["kind"] != "inference":
            if rec["exc"]:
                out.append(_viol("C13:exception_new_manager:" + rec["exc"], rec["op"], msg=rec.get("msg")))
            continue
        op = doc["ops"][rec["op"]]
        cfg = cfgs[op["mgr"]]
        rkeys = [_rkey(cfg, t) for _, t in op["batch"]]
        ref_excs = {refs[k]["exc"] for k in rkeys if "exc" in refs[k]}
        if rec["exc"]:
            if rec.get("solver_error_injected"):
                continue  # the failure was injected; what matters is the calls that follow
            if rec["exc"] not in ref_excs:
                out.append(_viol("C13:exception:" + rec["exc"], rec["op"], msg=rec.get("msg"), tb=rec.get("tb")))
            continue
        if ref_excs:
            # the operator refuses this base/query in the trivial history: no comparison possible
            continue
        rows = rec["rows"]
        if len(rows) != len(op["batch"]):
            out.append(_viol("C13:row_count", rec["op"], got=len(rows), want=len(op["batch"])))
            continue
        for j, ((key, text), row) in enumerate(zip(op["batch"], rows)):
            if row["index"] != int(key):
                out.append(_viol("C13:wrong_key", rec["op"], j, got=row["index"], want=int(key)))
            if row["query"] != text:
                out.append(_viol("C13:wrong_text", rec["op"], j, got=row["query"], want=text))
            flagged = row["ito"] is not False or row["pto"] is not False
            if flagged:
                if rec.get("auto_inf"):
                    # every query of this batch finishes alone within 2/3 of the per-query budget
                    out.append(_viol("C13:flagged_although_alone_within_budget", rec["op"], j, data=row, budget=rec["auto_inf"], multi=bool(op.get("multi"))))
                elif not (stall and op.get("multi")):
                    out.append(_viol("C13:flagged_without_budget", rec["op"], j, data=row))
                elif "excused_keys" in rec and None not in rec["excused_keys"] and int(key) not in rec["excused_keys"]:
                    # only the rows of workers that were really killed (or died) may be flagged
                    out.append(_viol("C13:healthy_worker_flagged", rec["op"], j, data=row, excused=rec["excused_keys"]))
                elif row["result"] is not False:
                    out.append(_viol("C13:flagged_true", rec["op"], j, data=row))
                continue
            want = refs[rkeys[j]]["result"]
            if row["result"] != want:
                out.append(_viol("C13:wrong_answer", rec["op"], j, got=row["result"], want=want, query=text, multi=bool(op.get("multi"))))
        for l in rec.get("leftovers", []):
            out.append(_viol("C13:left_behind", rec["op"], what=l))
    return out


def judge_c14(doc, twin, records):
    out = []
    dead = set()  # managers whose twin raised: behaviour afterwards is C13's business
    for trec, rec in zip(twin, records):
        if rec["kind"] != "inference":
            continue
        op = doc["ops"][rec["op"]]
        if op["mgr"] in dead:
            continue
        if trec["exc"]:
            dead.add(op["mgr"])
            continue
        if rec["exc"]:
            out.append(_viol("C14:exception_escaped:" + rec["exc"], rec["op"], msg=rec.get("msg"), tb=rec.get("tb")))
            dead.add(op["mgr"])
            continue
        rows, trows = rec["rows"], trec["rows"]
        if len(rows) != len(trows):
            out.append(_viol("C14:row_count", rec["op"], got=len(rows), want=len(trows)))
            continue
        for j, (row, trow) in enumerate(zip(rows, trows)):
            flagged = row["ito"] is not False or row["pto"] is not False
            if flagged:
                if row["result"] is not False:
                    out.append(_viol("C14:flagged_true", rec["op"], j, data=row))
                continue
            tflagged = trow["ito"] is not False or trow["pto"] is not False
            if tflagged:
                continue  # twin itself flagged (cannot happen without budgets; C13's business)
            if row["result"] != trow["result"]:
                out.append(
                    _viol("C14:unflagged_wrong", rec["op"], j, got=row["result"], want=trow["result"], query=row["query"], multi=bool(op.get("multi")))
                )
            elif row["index"] != trow["index"] or row["query"] != trow["query"]:
                out.append(_viol("C14:row_identity_changed", rec["op"], j, got=[row["index"], row["query"]], want=[trow["index"], trow["query"]]))
        for l in rec.get("leftovers", []):
            out.append(_viol("C14:left_behind", rec["op"], what=l))
    return out


# --------------------------------------------------------------------------------------
# fault planning from the twin's observation counts
# --------------------------------------------------------------------------------------
def _budget_of(op):
    vals = [float(op.get(k, 0)) if isinstance(op.get(k, 0), (int, float)) else 0.0 for k in ("total", "pre", "inf")]
    vals = [v for v in vals if v > 0]
    return min(vals) if vals else 0.0


def plan_faults(doc, counts, rng):
    """Place faults inside the actual range of observation points seen by the twin.  The plan is one
    dict or a list of them (each with its own operations, kinds and sites)."""
    plans = doc.get("fault_plan") or {}
    if isinstance(plans, dict):
        plans = [plans]
    faults = []
    for plan in plans:
        faults.extend(_plan_one(plan, doc, counts, rng))
    seen, out = set(), []
    for f in faults:
        key = (f["op"], f.get("worker"), f["site"], f["k"])
        if key not in seen:
            seen.add(key)
            out.append(f)
    return out


def _plan_one(plan, doc, counts, rng):
    n = int(plan.get("n", 0))
    kinds = plan.get("kinds") or ["slow"]
    faults = []
    ops = [i for i, op in enumerate(doc["ops"]) if op["op"] == "inference"]
    if plan.get("ops"):
        ops = [i for i in ops if i in plan["ops"]]
    sites = {}
    for (op, worker, site), c in counts.items():
        if op in ops and c > 0:
            sites.setdefault(op, []).append((worker, site, c))
    for _ in range(n):
        cand = [o for o in ops if o in sites]
        if not cand:
            break
        # prefer operations that carry a budget
        w = [3.0 if _budget_of(doc["ops"][o]) > 0 else 1.0 for o in cand]
        o = rng.choices(cand, weights=w)[0]
        op = doc["ops"][o]
        b = _budget_of(op)
        kind = rng.choice(kinds)
        options = sorted(sites[o], key=lambda x: (str(x[0]), x[1]))
        if plan.get("sites"):
            options = [x for x in options if x[1] in plan["sites"]] or options
        if plan.get("workers_only"):
            options = [x for x in options if x[0] is not None] or options
        if kind == "jump":
            options = [x for x in options if x[1] == "clock"] or options
        elif kind == "unknown":
            options = [x for x in options if x[1] == "opt.check"] or options
        else:
            options = [x for x in options if x[1] != "clock"] or options
        worker, site, c = rng.choice(options)
        r = rng.random()
        if plan.get("early"):
            # among the first observation points of the call (where a manager still prepares itself)
            k = rng.randrange(min(c, int(plan["early"])))
        elif r < 0.2:
            k = 0
        elif r < 0.35:
            k = c - 1
        else:
            k = rng.randrange(c)
        base = b if b > 0 else rng.choice([0.5, 2.0, 12.0])
        dur = round(base * rng.choice([0.4, 1.02, 1.02, 1.5, 3.0]) + rng.choice([0, 0, 0.001, 10.5]), 6)
        if plan.get("max_dur"):
            dur = min(dur, float(plan["max_dur"]))
        f = {"op": o, "site": site, "k": k}
        if worker is not None:
            f["worker"] = worker
        if site == "clock":
            f.update(kind="jump", dur=dur)
        elif kind == "crash" and worker is not None:
            f.update(kind="crash")
        elif kind == "error" and (worker is not None or plan.get("parent_error")):
            f.update(kind="error")
        elif kind == "exit_stall" and worker is not None:
            f.update(kind="stall", site="exit", k=0, dur=round(rng.choice([0.5, 9.0, 10.5, 40.0]), 3))
        else:
            f.update(kind="slow", dur=dur)
            if site == "opt.check":
                f["unknown"] = rng.choice(["a", "b", "c"])
        faults.append(f)
    # one fault per address
    seen, out = set(), []
    for f in faults:
        key = (f["op"], f.get("worker"), f["site"], f["k"])
        if key not in seen:
            seen.add(key)
            out.append(f)
    return out


# --------------------------------------------------------------------------------------
# scenario execution
# --------------------------------------------------------------------------------------
def _new_sim(doc):
    S = seams.Sim(doc["seed"], doc.get("knobs"))
    S.hash_rng = stream(doc["seed"], "hash")
    seams.SIM = S
    S.active = True
    return S


def _counts_json(counts):
    return {"%s|%s|%s" % (o, "-" if w is None else w, s): c for (o, w, s), c in sorted(counts.items(), key=lambda kv: (kv[0][0], str(kv[0][1]), kv[0][2]))}


def _finish(doc, S, violations, extra):
    res = {
        "violations": violations,
        "digest": S.digest(),
        "addr_digest": S.addr_digest(),
        "events": S.n_events,
        "vtime": round(S.vtime_total, 6),
        "fired": dict(S.fired),
        "probes": dict(S.probes),
        "expiry_sites": sorted(S.expiry_sites),
        "unknown_sites": sorted(S.unknown_sites),
        "doc": doc,
        "tail": S.tail[-25:] if violations else [],
    }
    res.update(extra)
    return res


def run_scenario(doc, full_trace=False):
    prop = doc["property"]
    S = _new_sim(doc)
    if full_trace:
        S.full_trace = []
    extra = {}
    if prop == "C13":
        refs, cfgs = _reference_answers(doc, S)
        ref_counts = dict(S.counts)
        # twin pass of the history itself (only to learn the observation points for fault placement)
        faults = doc.get("faults")
        if faults is None:
            if (doc.get("fault_plan") or {}).get("n"):
                tw = Phase(doc, S, "twin", True, [])
                tw.run()
                faults = plan_faults(doc, S.counts, stream(doc["seed"], "faults"))
            else:
                faults = []
            doc = dict(doc, faults=faults)
        ph = Phase(doc, S, "run", True, faults)

        def auto_budget(op):
            cfg = cfgs[op["mgr"]]
            vts = [refs[_rkey(cfg, t)].get("vt") for _, t in op["batch"]]
            if any(v is None for v in vts) or not vts:
                return 0
            return round(1.5 * max(vts) + 0.001, 6)

        ph.auto_budget = auto_budget
        recs = ph.run()
        violations = judge_c13(doc, refs, cfgs, recs)
        n_ref_exc = sum(1 for r in refs.values() if "exc" in r)
        answers = [row["result"] for r in recs for row in r.get("rows", [])]
        extra = {
            "orders": [list(map(list, o)) for o in ph.mp_orders],
            "ref_exc": n_ref_exc,
            "nontrivial": bool(answers) and n_ref_exc == 0 and sum(1 for r in recs if r["kind"] == "inference") >= 2,
            "state_keys": sorted({"order:%s" % (o,) for o in ph.mp_orders}),
            "records": recs if violations else None,
            "counts": _counts_json(S.counts),
        }
        del ref_counts
    elif prop == "C14":
        tw = Phase(doc, S, "twin", True, [])
        trecs = tw.run()
        counts = dict(S.counts)
        faults = doc.get("faults")
        if faults is None:
            faults = plan_faults(doc, counts, stream(doc["seed"], "faults"))
            doc = dict(doc, faults=faults)
        S.fired = {}
        S.expiry_sites = set()
        S.unknown_sites = set()
        ph = Phase(doc, S, "run", False, faults)
        recs = ph.run()
        violations = judge_c14(doc, trecs, recs)
        rows = [row for r in recs for row in r.get("rows", [])]
        flagged = sum(1 for row in rows if row["ito"] is not False or row["pto"] is not False)
        budgeted = any(_budget_of(op) > 0 for op in doc["ops"] if op["op"] == "inference")
        something_happened = bool(S.fired) or bool(S.expiry_sites) or flagged > 0
        cfgs = [(op["system"], op["pmaxsat"], op["weakly"]) for op in doc["ops"] if op["op"] == "new_manager"]
        multi = any(op.get("multi") for op in doc["ops"] if op["op"] == "inference")
        skeys = set()
        for site in sorted(S.expiry_sites):
            skeys.add("expiry|%s|%s" % (multi, site))
        for site in sorted(S.unknown_sites):
            skeys.add("unknown|%s|%s" % (multi, site))
        extra = {
            "flagged_rows": flagged,
            "unflagged_rows": len(rows) - flagged,
            "nontrivial": budgeted and something_happened and (len(rows) - flagged) > 0,
            "state_keys": sorted(skeys),
            "cfgs": cfgs,
            "records": recs if violations else None,
            "twin_records": trecs if violations else None,
            "counts": _counts_json(counts),
            "run_counts": _counts_json(S.counts),
            "orders": [list(map(list, o)) for o in ph.mp_orders],
            "sticky_pre_timeout": sum(
                1
                for r, op in ((r, doc["ops"][r["op"]]) for r in recs if r["kind"] == "inference")
                if _budget_of(op) == 0 and r.get("rows") and all(row["pto"] is not False for row in r["rows"])
            ),
        }
    else:
        raise seams.HarnessError("mgrsim does not serve %s" % prop)
    if extra.get("sticky_pre_timeout"):
        S.probe("sticky_pre_timeout_leniency", extra["sticky_pre_timeout"])
    res = _finish(doc, S, violations, extra)
    if full_trace:
        res["trace"] = S.full_trace
    return res


def job_execute(doc):
    return run_scenario(doc)


def job_trace(doc):
    return run_scenario(doc, full_trace=True)


def _parse_counts(cj):
    """Inverse of _counts_json (None if there is nothing to parse)."""
    if not isinstance(cj, dict):
        return None
    counts = {}
    for key, c in cj.items():
        oo, ww, ss = key.split("|", 2)
        counts[(int(oo), None if ww == "-" else int(ww), ss)] = c
    return counts


def _forked(fn):
    """Result of fn() computed in a forked child (None if it fails)."""
    r, w = os.pipe()
    pid = os.fork()
    if pid == 0:
        try:
            os.close(r)
            try:
                data = pickle.dumps(fn())
            except BaseException:  # noqa: BLE001
                data = pickle.dumps(None)
            off = 0
            while off < len(data):
                off += os.write(w, data[off : off + 65536])
        finally:
            os._exit(0)
    os.close(w)
    chunks = []
    while True:
        bts = os.read(r, 1 << 16)
        if not bts:
            break
        chunks.append(bts)
    os.close(r)
    os.waitpid(pid, 0)
    try:
        return pickle.loads(b"".join(chunks))
    except Exception:  # noqa: BLE001
        return None


def job_sweep(doc):
    """Thorough C14: after the twin, run EVERY single-fault position of the swept operation,
    each in its own fork (so that each position is exactly what a replay of it executes)."""
    # the observation points are counted in a forked child: the sweeping process itself never runs the
    # scenario, so every position below starts from the same pristine state as a replay of it
    def _twin_counts():
        S = _new_sim(doc)
        Phase(doc, S, "twin", True, []).run()
        return _counts_json(S.counts)

    counts = _parse_counts(_forked(_twin_counts))
    if counts is None:
        return {"harness_error": "sweep: the twin run failed"}
    sw = doc["sweep"]
    prefix = []
    if sw.get("prefix_plan"):
        # a seeded fault in an EARLIER call comes first in every plan; the positions of the swept call
        # are those of a run that has been through it (the call may then do work it would otherwise
        # have found done)
        prefix = _plan_one(sw["prefix_plan"], doc, counts, stream(doc["seed"], "prefix"))
        if prefix:
            d0 = {k: v for k, v in doc.items() if k not in ("sweep", "fault_plan")}
            d0["faults"] = list(prefix)
            counts = _parse_counts(_forked(lambda: run_scenario(d0).get("run_counts"))) or counts
    o = sw["op"]
    op = doc["ops"][o]
    b = _budget_of(op)
    positions = []
    for (oo, worker, site), c in sorted(counts.items(), key=lambda kv: (kv[0][0], str(kv[0][1]), kv[0][2])):
        if oo != o:
            continue
        for k in range(c):
            f = {"op": o, "site": site, "k": k}
            if worker is not None:
                f["worker"] = worker
            if site == "clock":
                f.update(kind="jump", dur=round(b * 1.02 + 0.001, 6))
                positions.append(f)
            else:
                if worker is not None and site != "exit":
                    # a worker may also be killed, or fail, at each of its solver calls
                    positions.append(dict(f, kind="crash"))
                    positions.append(dict(f, kind="error"))
                f.update(kind="slow", dur=round(b * 1.02 + 0.001, 6))
                if site == "opt.check":
                    for fl in sw.get("flavours", ["a", "b", "c"]):
                        positions.append(dict(f, unknown=fl))
                else:
                    positions.append(f)
    cap = int(sw.get("max_positions", 400))
    if len(positions) > cap:
        rng = stream(doc["seed"], "sweep")
        positions = sorted(rng.sample(positions, cap), key=lambda f: json.dumps(f, sort_keys=True))
    plans = [[f] for f in positions]
    if prefix:
        plans = [p for p in plans if (p[0]["op"], p[0].get("worker"), p[0]["site"], p[0]["k"]) != (prefix[0]["op"], prefix[0].get("worker"), prefix[0]["site"], prefix[0]["k"])]
    if sw.get("pairs") and 2 <= len(positions) <= int(sw.get("pairs_max_positions", 16)):
        # small workloads: every PAIR of fault positions as well (two expiries / an expiry and an
        # unknown / ... in one call)
        import itertools

        for f1, f2 in itertools.combinations(positions, 2):
            if (f1["op"], f1.get("worker"), f1["site"], f1["k"]) != (f2["op"], f2.get("worker"), f2["site"], f2["k"]):
                plans.append([f1, f2])
    results = []
    for fl in plans:
        d = {k: v for k, v in doc.items() if k not in ("sweep", "fault_plan")}
        d["faults"] = list(prefix) + list(fl)
        d["class"] = "sweep" if len(d["faults"]) == 1 else "sweep2"
        r, w = os.pipe()
        pid = os.fork()
        if pid == 0:
            try:
                os.close(r)
                try:
                    res = run_scenario(d)
                except BaseException as e:  # noqa: BLE001
                    res = {"harness_error": "%s: %s" % (type(e).__name__, e), "tb": traceback.format_exc()[-1500:]}
                slim = {
                    k: res.get(k)
                    for k in ("violations", "digest", "vtime", "fired", "expiry_sites", "unknown_sites", "nontrivial", "state_keys", "harness_error", "flagged_rows", "unflagged_rows", "probes")
                }
                data = pickle.dumps(slim)
                off = 0
                while off < len(data):
                    off += os.write(w, data[off : off + 65536])
            finally:
                os._exit(0)
        os.close(w)
        chunks = []
        while True:
            bts = os.read(r, 1 << 16)
            if not bts:
                break
            chunks.append(bts)
        os.close(r)
        os.waitpid(pid, 0)
        try:
            slim = pickle.loads(b"".join(chunks))
        except Exception:  # noqa: BLE001
            slim = {"harness_error": "sweep child died"}
        slim["doc"] = d
        results.append(slim)
    return {"sweep_results": results, "positions": len(plans), "counts": _counts_json(counts)}


def job_orders(doc):
    """C13 schedule enumeration for ONE parallel call: every completion order of its workers
    (n <= 4) x every subset of workers stalled beyond the join window (n <= 3), the delay placed
    either before the result is written (slow first solver call) or after it (exit stall)."""
    import itertools

    o = doc["orders"]["op"]
    n = len(doc["ops"][o]["batch"])
    results = []
    plans = []
    for perm in itertools.permutations(range(n)):
        for stalled in itertools.chain.from_iterable(itertools.combinations(range(n), r) for r in range(0, min(n, 2) + 1)):
            for mode in ("exit", "first"):
                faults = []
                for rank, j in enumerate(perm):
                    dur = 0.4 * (rank + 1) + (11.0 if j in stalled else 0.0)
                    if mode == "exit":
                        faults.append({"op": o, "worker": j, "site": "exit", "k": 0, "kind": "stall", "dur": dur})
                    else:
                        faults.append({"op": o, "worker": j, "site": "z3.check", "k": 0, "kind": "slow", "dur": dur})
                plans.append(faults)
    cap = int(doc["orders"].get("max", 200))
    if len(plans) > cap:
        rng = stream(doc["seed"], "orders")
        plans = [plans[i] for i in sorted(rng.sample(range(len(plans)), cap))]
    for faults in plans:
        d = {k: v for k, v in doc.items() if k not in ("orders", "fault_plan")}
        d["faults"] = faults
        d["class"] = "stall"  # flagged rows of stalled workers are allowed, everything else is not
        r, w = os.pipe()
        pid = os.fork()
        if pid == 0:
            try:
                os.close(r)
                try:
                    res = run_scenario(d)
                except BaseException as e:  # noqa: BLE001
                    res = {"harness_error": "%s: %s" % (type(e).__name__, e), "tb": traceback.format_exc()[-1500:]}
                slim = {k: res.get(k) for k in ("violations", "digest", "vtime", "fired", "nontrivial", "state_keys", "harness_error", "probes")}
                data = pickle.dumps(slim)
                off = 0
                while off < len(data):
                    off += os.write(w, data[off : off + 65536])
            finally:
                os._exit(0)
        os.close(w)
        chunks = []
        while True:
            bts = os.read(r, 1 << 16)
            if not bts:
                break
            chunks.append(bts)
        os.close(r)
        os.waitpid(pid, 0)
        try:
            slim = pickle.loads(b"".join(chunks))
        except Exception:  # noqa: BLE001
            slim = {"harness_error": "orders child died"}
        slim["doc"] = d
        results.append(slim)
    return {"sweep_results": results, "positions": len(plans)}


# ======================================================================================
# parent side: generation (no repository code)
# ======================================================================================
def _pick_keys(g, n):
    style = g.choice(["one", "one", "zero", "sparse", "negative", "large", "shuffled"])
    if style == "one":
        return list(range(1, n + 1))
    if style == "zero":
        return list(range(0, n))
    if style == "sparse":
        return sorted(g.sample(range(0, 60), n))
    if style == "negative":
        return g.sample(range(-20, 20), n)
    if style == "large":
        return [g.randrange(10**6, 10**9) for _ in range(n)] if n < 2 else g.sample(range(10**6, 10**6 + 10 * n), n)
    ks = list(range(1, n + 1))
    g.shuffle(ks)
    return ks


def _pick_cfg(g, force_z3=False, weakly_only=False, systems=None):
    system = g.choice(systems or SYSTEMS)
    if force_z3:
        system = g.choice(["system-w", "lex_inf"])
    pm = "rc2"
    if system in ("system-w", "lex_inf"):
        pm = "z3" if (force_z3 or g.random() < 0.3) else g.choice(RC2_BACKENDS)
    elif system == "c-inference":
        pm = g.choice(RC2_BACKENDS)
    weakly = True if weakly_only else (g.random() < 0.3)
    if system == "c-inference":
        weakly = False  # c-inference has no extended mode
    return {"op": "new_manager", "system": system, "pmaxsat": pm, "weakly": weakly}


def generate(prop, verif_seed, idx, tier="quick", cls=None, recover=False):
    from sim.gen import workload as W

    sseed = derive(verif_seed, prop, idx)
    g = stream(sseed, "gen")
    if cls is None:
        if prop == "C13":
            cls = g.choices(["seq", "dup", "par", "stall", "budget", "failed_call", "long"], weights=[30, 11, 26, 12, 11, 7, 3])[0]
        else:
            cls = g.choices(["nofault", "seq", "par", "z3", "natural", "poison", "relapse"], weights=[9, 30, 18, 22, 9, 12, 10])[0]
    if prop == "C13" and cls in ("failed_call", "long"):
        return _generate_history(prop, sseed, idx, g, cls)
    if cls == "poison":
        return _generate_poison(prop, sseed, idx, g)
    if cls == "relapse":
        return _generate_relapse(prop, sseed, idx, g)
    # ---- base -------------------------------------------------------------------------
    weakly_base = g.random() < 0.15
    defaults_base = False
    chain_base = False
    if g.random() < (0.1 if cls == "z3" else 0.3) and not weakly_base and W.shipped_bases():
        src, sig, text = g.choice(W.shipped_bases())
        conds = None
    elif cls == "z3" and not weakly_base and g.random() < 0.4:
        sig, conds = W.gen_defaults_base(g)
        text = W.base_text(sig, conds)
        src = "gen"
        defaults_base = True
    elif cls in ("z3", "seq") and not weakly_base and g.random() < (0.3 if cls == "z3" else 0.15):
        sig, conds = W.gen_exception_chain_base(g)
        text = W.base_text(sig, conds)
        src = "gen"
        chain_base = True
    else:
        sig, conds = W.gen_base(g, want="weakly" if weakly_base else "consistent", max_atoms=g.choice([3, 4, 5]), max_conds=g.choice([3, 5, 7]))
        text = W.base_text(sig, conds)
        src = "gen"
    # ---- queries ----------------------------------------------------------------------
    npool = g.randint(3, 8)
    pool = []
    bias = "conflict" if (cls == "z3" and conds and g.random() < 0.6) else None
    if chain_base:
        for _ in range(4):
            t = W.cond_text(W.gen_chain_query(g, sig, conds))
            if t not in pool:
                pool.append(t)
    if weakly_base and conds:
        # queries decided by the infinity layer alone (the vacuity tests of the extended operators)
        for _ in range(g.choice([1, 2, 3])):
            q = W.gen_infinity_query(g, sig, conds)
            if q is not None:
                t = W.cond_text(q)
                if t not in pool:
                    pool.append(t)
    if defaults_base and len(conds) >= 3:
        for _ in range(2):
            t = W.cond_text(W.gen_survivor_query(g, conds))
            if t not in pool:
                pool.append(t)
    for _ in range(npool):
        t = W.cond_text(W.gen_query(g, sig, conds, bias=bias))
        if t not in pool:
            pool.append(t)
    if len(sig) >= 2 and g.random() < 0.15:
        # two deep queries that agree down to nesting depth 6 and differ only below
        # (catches caches keyed on abbreviated formula texts)
        p_, b_ = g.sample(sig, 2)
        leaf = g.choice(sig)
        for neg in (False, True):
            x = ("not", ("var", leaf)) if neg else ("var", leaf)
            for _ in range(3):
                x = ("and", ("var", b_), ("or", ("not", ("var", p_)), x))
            t = W.cond_text((x, ("var", p_)))
            if t not in pool:
                pool.append(t)
    # ---- managers and calls -----------------------------------------------------------
    ops = []
    n_mgr = g.choice([1, 1, 2, 3])
    for _ in range(n_mgr):
        ops.append(_pick_cfg(g, force_z3=(cls == "z3"), weakly_only=weakly_base))
    base2 = None
    if prop == "C13" and n_mgr >= 2 and g.random() < 0.3:
        # the second manager works on ANOTHER base (same atoms): whatever the first one leaves behind in
        # the process must not reach it (the reference is computed in a process of its own)
        sig2, conds2 = W.gen_base(g, want="consistent", max_conds=g.choice([3, 5]), exact_atoms=len(sig)) if len(sig) <= 6 else (None, None)
        if sig2 is not None and list(sig2) == list(sig):
            base2 = {"text": W.base_text(sig2, conds2, name="kb2"), "src": "gen"}
            ops[1] = dict(ops[1], base=2, weakly=False)
            if ops[1]["system"] == "c-inference" or g.random() < 0.3:
                ops[1]["system"] = "c-inference"
                ops[1]["pmaxsat"] = g.choice(RC2_BACKENDS)
            if g.random() < 0.5 and not weakly_base:
                # both managers use the same operator (whatever one of them leaves behind in
                # process-wide state of that operator meets the other one) ...
                ops[0] = dict(ops[0], system=ops[1]["system"], pmaxsat=ops[1]["pmaxsat"], weakly=False)
            if conds is not None and g.random() < 0.5:
                # ... and the first base contains a conditional that can never be falsified
                from sim.models.refz import tolerance_partition as _tp

                a_ = W.gen_literal(g, sig)
                trivial = (a_, a_) if g.random() < 0.6 else (("or", a_, W.gen_literal(g, sig)), a_)
                pos_ = g.randrange(len(conds) + 1)
                trial = conds[:pos_] + [trivial] + conds[pos_:]
                if _tp(sig, trial, False) is not None:
                    conds = trial
                    text = W.base_text(sig, conds)
    elif n_mgr >= 2 and g.random() < 0.4:
        # siblings over the same base object: the same operator in the other mode, or with the
        # other kind of back-end (anything cached on the shared base must not leak between them)
        sib = dict(ops[0])
        if sib["system"] in ("system-w", "lex_inf") and g.random() < 0.5:
            sib["pmaxsat"] = g.choice(RC2_BACKENDS) if sib["pmaxsat"] == "z3" else "z3"
        elif sib["system"] != "c-inference" and not weakly_base:
            sib["weakly"] = not sib["weakly"]
        ops[1] = sib
    n_calls = g.randint(2, 6) if prop == "C13" else g.randint(1, 4)
    budgets = [0, 1, 2, 5, 30, 0.5, 1.5]
    calls = []
    for c in range(n_calls):
        mgr = g.randrange(n_mgr)
        n = g.randint(1, min(6, len(pool) + 2))
        big = False
        if cls in ("par", "stall") and prop == "C13" and g.random() < (0.04 if cls == "par" else 0.08):
            # a batch larger than any plausible worker-pool / wave size
            big = True
            extra_q = []
            while len(extra_q) < 40:
                t = W.cond_text(W.gen_conditional(g, sig, "literal" if len(sig) >= 3 else "mixed"))
                if t not in extra_q:
                    extra_q.append(t)
                if len(extra_q) < 40 and g.random() < 0.02:
                    break
            texts = extra_q[: g.randint(33, 40)]
        elif cls == "dup":
            texts = [g.choice(pool) for _ in range(n)]
            if n >= 2:
                texts[-1] = texts[0]
        else:
            texts = g.sample(pool, min(n, len(pool)))
        if defaults_base and pool and pool[0] not in texts:
            texts[g.randrange(len(texts))] = pool[0]
        if chain_base and cls != "dup" and not big:
            # calls on an exception-chain base ask the base-specific queries (several per call)
            texts = g.sample(pool[:4], min(len(pool[:4]), g.randint(2, 4))) + [t for t in texts if t not in pool[:4]][:2]
        keys = _pick_keys(g, len(texts))
        op = {"op": "inference", "mgr": mgr, "batch": [[k, t] for k, t in zip(keys, texts)], "multi": False}
        if cls == "dup" and g.random() < 0.4:
            op["alias"] = True
        if big:
            op["multi"] = True
        if cls in ("par", "stall"):
            op["multi"] = big or g.random() < 0.75
        elif cls == "budget":
            op["multi"] = g.random() < 0.25
            op["inf"] = "auto"
        elif prop == "C14" and cls in ("z3", "natural", "nofault"):
            op["multi"] = g.random() < 0.2
        if op["multi"]:
            op["latencies"] = [round(g.choice([0.0005, 0.001, 0.01, 0.2]), 4) for _ in texts]
        if prop == "C14":
            last_free = c == n_calls - 1 and n_calls > 1 and g.random() < 0.6
            if not last_free:
                mode = g.choice(["total", "inf", "pre", "total+inf", "all", "inf"])
                if "total" in mode or mode == "all":
                    op["total"] = g.choice(budgets[1:])
                if "inf" in mode or mode == "all":
                    op["inf"] = g.choice(budgets[1:])
                if mode in ("pre", "all"):
                    op["pre"] = g.choice(budgets[1:])
        calls.append(op)
    if prop == "C14":
        # recovery phase: once the budgets (faults) are over, re-ask on the same manager what a
        # budgeted call was asked ("... or in later calls"); state poisoned by an expiry shows up here
        budgeted = [c for c in calls if _budget_of(c) > 0]
        if budgeted and (recover or g.random() < 0.6):
            src = budgeted[0] if recover else g.choice(budgeted)
            texts = [t for _, t in src["batch"]]
            if g.random() < 0.5:
                g.shuffle(texts)
            calls.append({"op": "inference", "mgr": src["mgr"], "batch": [[k, t] for k, t in zip(_pick_keys(g, len(texts)), texts)], "multi": False})
    ops.extend(calls)
    knobs = {"svc_scale": g.choice([0.1, 1.0, 1.0, 10.0])}
    if g.random() < 0.1:
        knobs["loglevel"] = "INFO"
    doc = {"property": prop, "seed": sseed, "idx": idx, "class": cls, "knobs": knobs, "base": {"text": text, "src": src}, "ops": ops}
    if base2 is not None:
        doc["base2"] = base2
    if prop == "C13":
        if cls == "budget":
            # long virtual service times: the per-query budget is a few virtual seconds to minutes
            doc["knobs"]["svc_scale"] = g.choice([100.0, 1000.0])
        if cls == "par":
            # reordering only: the sum of delays stays below the join window (10 virtual s)
            doc["fault_plan"] = {"n": g.choice([0, 1, 2, 3]), "kinds": ["slow"], "max_dur": 2.0}
        elif cls == "stall":
            doc["fault_plan"] = {"n": g.choice([1, 2, 3]), "kinds": ["slow", "exit_stall", "exit_stall"], "workers_only": True}
            # stalls need to exceed the join window of timeout+10 virtual seconds
            doc["knobs"]["stall"] = True
    else:
        if cls == "nofault":
            doc["faults"] = []
        elif cls == "natural":
            doc["faults"] = []
            doc["knobs"]["svc_scale"] = g.choice([30.0, 100.0, 300.0])
        elif cls == "par":
            doc["fault_plan"] = {"n": g.choice([1, 2, 3]), "kinds": ["slow", "slow", "jump", "crash", "error", "exit_stall"]}
        elif cls == "z3":
            doc["fault_plan"] = {"n": g.choice([1, 2, 3]), "kinds": ["unknown", "unknown", "slow", "jump"]}
        else:
            doc["fault_plan"] = {"n": g.choice([1, 2, 3]), "kinds": ["slow", "slow", "jump"]}
    return doc


def _generate_history(prop, sseed, idx, g, cls):
    """C13 classes that are about what a manager has been through:
    failed_call - a warm-up call, a call in which a solver call fails (the exception escapes, as it
                  must), then further calls that have to be answered as if nothing had happened;
    long        - one RC2-backed manager asked 25-40 times, mostly deep queries (hundreds of query-local
                  solver variables accumulate in its id pool)."""
    from sim.gen import workload as W

    if cls == "failed_call" and g.random() < 0.4:
        sig, conds = W.gen_large_base(g, n_atoms=g.choice([4, 5]), n_conds=g.randint(11, 13))
        text, src = W.base_text(sig, conds), "gen-large"
    elif g.random() < 0.4 and W.shipped_bases():
        src, sig, text = g.choice(W.shipped_bases())
        conds = None
    else:
        sig, conds = W.gen_base(g, want="consistent", max_atoms=g.choice([3, 4, 5]), max_conds=g.choice([4, 6]))
        text, src = W.base_text(sig, conds), "gen"
    pool = []
    for _ in range(6):
        t = W.cond_text(W.gen_query(g, sig, conds))
        if t not in pool:
            pool.append(t)
    system = g.choice(["c-inference", "c-inference", "system-w", "lex_inf"]) if cls == "failed_call" else g.choice(["system-w", "lex_inf", "c-inference"])
    ops = [{"op": "new_manager", "system": system, "pmaxsat": g.choice(RC2_BACKENDS), "weakly": False}]
    knobs = {"svc_scale": 1.0}
    doc = {"property": prop, "seed": sseed, "idx": idx, "class": cls, "knobs": knobs, "base": {"text": text, "src": src}}
    if cls == "failed_call":
        def call(n):
            texts = g.sample(pool, min(len(pool), n))
            return {"op": "inference", "mgr": 0, "batch": [[k + 1, t] for k, t in enumerate(texts)], "multi": False}

        ops.append(call(g.randint(1, 3)))  # completes preprocessing
        ops.append(call(g.randint(1, 3)))  # the call that fails
        failing = len(ops) - 1
        for _ in range(g.randint(1, 2)):
            c = call(g.randint(2, 4))
            c["multi"] = g.random() < 0.25
            if c["multi"]:
                c["latencies"] = [0.001] * len(c["batch"])
            ops.append(c)
        doc["ops"] = ops
        doc["fault_plan"] = {"n": 1, "kinds": ["error"], "ops": [failing], "parent_error": True, "sites": g.choice([["z3.check"], ["rc2.compute"], ["z3.check", "rc2.compute"]])}
        return doc
    # long: a base over the first atoms of a larger signature, so that most queries mention atoms
    # the base says nothing about; very deep queries (many auxiliary solver variables each)
    if src == "gen" and conds is not None and len(sig) < 5:
        sig = W.ATOMS[:5]
        text = W.base_text(sig, conds)
        doc["base"] = {"text": text, "src": src}
        pool = []
        for _ in range(6):
            t = W.cond_text(W.gen_query(g, sig, conds))
            if t not in pool:
                pool.append(t)
    deep = []
    if len(sig) >= 2:
        for _ in range(3):
            p_, b_ = g.sample(sig, 2)
            leaf = g.choice(sig)
            for neg in (False, True):
                x = ("not", ("var", leaf)) if neg else ("var", leaf)
                for lvl in range(g.choice([4, 6, 8])):
                    other = ("var", g.choice(sig))
                    x = ("and", ("var", b_), ("or", ("not", ("var", p_)), ("and", other, x) if lvl % 2 else x))
                deep.append(W.cond_text((x, ("var", p_))))
    deep = list(dict.fromkeys(deep))
    for _ in range(g.randint(25, 40)):
        texts = g.sample(deep, min(len(deep), 3)) + g.sample(pool, 1) if deep else g.sample(pool, min(3, len(pool)))
        g.shuffle(texts)
        ops.append({"op": "inference", "mgr": 0, "batch": [[k + 1, t] for k, t in enumerate(texts)], "multi": False})
    doc["ops"] = ops
    doc["faults"] = []
    return doc


def _generate_poison(prop, sseed, idx, g):
    """C14 class 'poison': an RC2-backed manager, literal queries that conflict with the base (so
    that correction-set enumerations have several models), a warm-up call, ONE budgeted call whose
    budget expires at a seeded solver call, and a recovery call that re-asks the same queries."""
    from sim.gen import workload as W

    if g.random() < 0.5 and W.shipped_bases():
        src, sig, text = g.choice(W.shipped_bases())
        import re

        body = text[text.find("{") + 1 : text.rfind("}")]
        ctexts = [c.strip().rstrip(",").replace(" ", "") for c in body.split("\n") if "|" in c]
    else:
        if g.random() < 0.3:
            sig, conds = W.gen_defaults_base(g)
        else:
            sig, conds = W.gen_base(g, want="consistent", max_atoms=g.choice([3, 4, 5]), max_conds=g.choice([4, 6]), style="literal")
        text, src = W.base_text(sig, conds), "gen"
        ctexts = [W.cond_text(c) for c in conds]
    pool = []
    for t in ctexts:
        b, a = t[1:-1].split("|", 1)
        pool.append("(%s|%s)" % (b, a))
        if "," not in b and ";" not in b:
            nb = b[1:] if b.startswith("!") else "!" + b
            pool.append("(%s|%s)" % (nb, a))
    for _ in range(3):
        pool.append(W.cond_text(W.gen_conditional(g, sig, "literal")))
    if len(ctexts) >= 2:
        for _ in range(2):
            pick = g.sample(ctexts, min(len(ctexts), g.choice([2, 2, 3])))
            parts = []
            for t in pick:
                b, a = t[1:-1].split("|", 1)
                nb = b[1:] if (b.startswith("!") and "," not in b and ";" not in b) else "!(%s)" % b
                parts.append("(%s,%s)" % (a, nb) if a != "Top" else nb)
            rest = [t for t in ctexts if t not in pick]
            b0 = (g.choice(rest) if rest and g.random() < 0.6 else pick[0])[1:-1].split("|", 1)[0]
            pool.append("(%s|%s)" % (b0, ";".join(parts)))
    pool = list(dict.fromkeys(pool))
    system = g.choice(["c-inference", "c-inference", "system-w", "lex_inf"])
    ops = [{"op": "new_manager", "system": system, "pmaxsat": g.choice(RC2_BACKENDS), "weakly": False}]
    if g.random() < 0.7:
        warm = g.sample(pool, min(len(pool), g.randint(1, 2)))
        ops.append({"op": "inference", "mgr": 0, "batch": [[k + 1, t] for k, t in enumerate(warm)], "multi": False})
    asked = g.sample(pool, min(len(pool), g.randint(1, 3)))
    b = g.choice([1, 2, 5])
    ops.append({"op": "inference", "mgr": 0, "batch": [[k + 1, t] for k, t in enumerate(asked)], "multi": False, "inf": b})
    again = list(asked)
    if g.random() < 0.4:
        g.shuffle(again)
    ops.append({"op": "inference", "mgr": 0, "batch": [[k + 1, t] for k, t in enumerate(again)], "multi": False})
    doc = {"property": prop, "seed": sseed, "idx": idx, "class": "poison", "knobs": dict({"svc_scale": 1.0}, **({"loglevel": "INFO"} if g.random() < 0.1 else {})), "base": {"text": text, "src": src}, "ops": ops}
    doc["fault_plan"] = {"n": g.choice([1, 1, 2]), "kinds": ["slow"], "ops": [len(ops) - 2], "sites": ["rc2.compute"]}
    return doc


def _generate_relapse(prop, sseed, idx, g):
    """C14 class 'relapse': ONE manager runs out of budget twice.  The first budgeted call loses its
    budget at one of its first observation points (for c-inference: inside the preparation of the
    manager), a later budgeted call on the same queries expires again somewhere else, and a last call
    without budgets re-asks them.  What the first expiry leaves behind must neither leak into the rows
    of the second one nor into the recovery."""
    from sim.gen import workload as W

    if g.random() < 0.4 and W.shipped_bases():
        src, sig, text = g.choice(W.shipped_bases())
        body = text[text.find("{") + 1 : text.rfind("}")]
        ctexts = [c.strip().rstrip(",").replace(" ", "") for c in body.split("\n") if "|" in c]
        conds = None
    else:
        sig, conds = W.gen_base(g, want="consistent", max_atoms=g.choice([3, 4, 5]), max_conds=g.choice([3, 5]))
        text, src = W.base_text(sig, conds), "gen"
        ctexts = [W.cond_text(c) for c in conds]
    pool = list(ctexts)  # the conditionals of the base themselves: entailed by every operator
    for _ in range(3):
        pool.append(W.cond_text(W.gen_query(g, sig, conds) if conds else W.gen_conditional(g, sig, "literal")))
    pool = list(dict.fromkeys(pool))
    cfg = _pick_cfg(g, systems=["c-inference", "c-inference", "c-inference", "system-w", "lex_inf", "system-z"])
    cfg["weakly"] = False
    ops = [cfg]
    asked = g.sample(pool, min(len(pool), g.randint(1, 3)))
    first = {"op": "inference", "mgr": 0, "batch": [[k + 1, t] for k, t in enumerate(asked)], "multi": False}
    mode = g.choice(["pre", "pre", "pre+inf", "total"])
    if "pre" in mode:
        first["pre"] = g.choice([1, 2, 5])
    if "inf" in mode:
        first["inf"] = g.choice([1, 2, 5])
    if mode == "total":
        first["total"] = g.choice([1, 2, 5])
    ops.append(first)
    if g.random() < 0.2:
        # a call without budgets in between (the manager is then fully prepared)
        some = g.sample(pool, min(len(pool), g.randint(1, 2)))
        ops.append({"op": "inference", "mgr": 0, "batch": [[k + 1, t] for k, t in enumerate(some)], "multi": False})
    again = list(asked)
    if g.random() < 0.3:
        g.shuffle(again)
    second = {"op": "inference", "mgr": 0, "batch": [[k + 1, t] for k, t in enumerate(again)], "multi": False}
    second[g.choice(["inf", "inf", "total"])] = g.choice([1, 2, 5])
    ops.append(second)
    i_first, i_second = 1, len(ops) - 1
    ops.append({"op": "inference", "mgr": 0, "batch": [[k + 1, t] for k, t in enumerate(asked)], "multi": False})
    doc = {"property": prop, "seed": sseed, "idx": idx, "class": "relapse", "knobs": {"svc_scale": g.choice([0.1, 1.0, 1.0])}, "base": {"text": text, "src": src}, "ops": ops}
    doc["fault_plan"] = [
        {"n": 1, "kinds": ["jump", "slow"], "ops": [i_first], "early": g.choice([2, 4, 8])},
        {"n": 1, "kinds": ["slow", "slow", "jump"], "ops": [i_second]},
    ]
    return doc


def canonical(doc):
    d = {k: doc[k] for k in ("property", "knobs", "base", "base2", "ops") if k in doc}
    d["faults"] = doc.get("faults")
    return hashlib.sha256(json.dumps(d, sort_keys=True).encode()).hexdigest()


# ======================================================================================
# parent side: driver interface
# ======================================================================================
NAME = "mgrsim"

_COMPONENTS = {
    "real": [
        "inference/*, parser/*, infocf/* (current working tree of /repo)",
        "z3 (Solver, Optimize), pysat RC2 and its SAT engines, pysmt, pandas: called for real, results unaltered except for the injected 'unknown'",
        "os.fork for every simulated worker process (the real _multi_inference_worker runs to completion in it)",
    ],
    "stub": [
        "time.perf_counter/perf_counter_ns/time/monotonic -> virtual clock (advances 1 us per read, by a service time per solver call, by injected jumps)",
        "z3.Optimize.set(timeout=..) -> recorded, never passed to z3; Optimize.check returns an injected 'unknown' (3 flavours) when the virtual duration exceeds the recorded limit",
        "multiprocessing as seen by inference.inference (Manager, dict, Process.start/join/is_alive/terminate) -> SimMP, played back in virtual time",
        "Conditional.__hash__ -> seeded (set iteration order owned by the simulator)",
    ],
}

SPECS = {
    "C13": {
        "n_quick": 700,
        "n_thorough": 16000,
        "orders_quick": 4,
        "orders_thorough": 120,
        "recheck": 10,
        "rule": (
            "scenario = base (generated through the real parser, or shipped example) + 1-3 managers (operator x back-end x mode) + 2-6 inference() calls "
            "with arbitrary sub-batches/orders/keys (classes: seq, dup = repeated query texts, par = parallel calls with seeded spawn latencies and slow events "
            "that reorder worker completion, stall = workers stalled beyond the join window). Oracle: every row vs. 'the same query alone on a fresh manager, "
            "sequentially'. Distinct = distinct canonical JSON of the executed scenario; non-trivial = at least two inference() calls, no query for which "
            "the reference itself refuses, at least one answer row."
        ),
        "state_measure": "distinct (worker completion order, set of terminated workers) tuples over all parallel calls",
        "must_reach": ["terminate_path", "mp_workers", "slow"],
        "components": _COMPONENTS,
        "assumptions": [
            "workers of one parallel call share nothing but the result dict, so running them eagerly one after the other and replaying their time-stamped effects is equivalent to any real interleaving with the same time stamps",
            "only the fork start method is modelled; the real multiprocessing.Manager server process and its proxies are stubbed",
            "the reference answer is computed by the same code in the trivial history (semantic correctness of answers is C01-C05's subject)",
            "z3/pysat/pysmt are deterministic for identical call sequences from identical process state (spot-checked by re-running scenarios and comparing trace digests)",
        ],
    },
    "C14": {
        "n_quick": 900,
        "n_thorough": 12000,
        "sweeps_quick": 8,
        "sweeps_thorough": 160,
        "recheck": 10,
        "rule": (
            "scenario = C13-style workload whose calls carry total/preprocessing/per-query budgets, run under the virtual clock with 0-3 faults placed INSIDE the "
            "range of observation points measured by a budget-free twin run of the same operations: slow solver call (site, k, duration), clock jump at the k-th "
            "clock read, solver 'unknown' (flavours a/b/c) where a z3 limit is active, worker crash at its k-th solver call, worker exit stall; classes nofault, "
            "natural (service times scaled until budgets expire by themselves), seq, par, z3, poison (expiry inside a correction-set enumeration + recovery call), relapse (one manager expires in two calls: early in the first - for c-inference inside its preparation - and anywhere in a later one on the same queries, then a recovery call; in sweeps the first expiry is seeded and every position of the second call is tried after it), sweep (every single-fault position of one budgeted call; for calls with <= 16 positions every PAIR of positions as well = sweep2). "
            "Oracle: each row is flagged-and-False or equals the twin's row; no exception escapes; later calls unaffected. Distinct = distinct canonical JSON "
            "(workload + explicit faults); non-trivial = a budget was set AND a fault fired or an expiry was observed or a row was flagged AND at least one row stayed unflagged."
        ),
        "state_measure": "distinct (parallel?, call-stack digest inside the repository) at which a deadline was observed as expired or a solver call returned unknown",
        "must_reach": ["slow", "jump", "unknown_a", "unknown_b", "unknown_c", "deadline_seen_expired", "crash", "terminate_path"],
        "components": _COMPONENTS,
        "assumptions": [
            "a z3 time limit has exactly three observable outcomes after expiry: no model (exception or stale model), the optimal model, or a feasible non-optimal model; 'unknown' is injected only on optimizers that had a limit set",
            "RC2 has no time limit of its own; its only expiry points are the deadline polls of the enumeration loop",
            "virtual time passes only at clock reads (1 us), solver calls (service time) and injected jumps; forward only",
            "workers of a parallel call share nothing but the result dict (see C13)",
            "the twin (same operations, no budgets, no faults) is the reference: a defect of C13 present in both runs cannot surface here",
        ],
    },
}


def jobs(prop, verif_seed, n, tier):
    jid = 0
    if prop == "C13":
        ns = int(os.environ.get("VERIF_SWEEPS") or SPECS["C13"]["orders_" + tier])
        made, idx = 0, 10**6
        while made < ns and idx < 10**6 + 60 * ns + 60:
            doc = generate("C13", verif_seed, idx, tier, cls="par")
            idx += 1
            cand = [i for i, op in enumerate(doc["ops"]) if op["op"] == "inference" and op.get("multi") and 2 <= len(op["batch"]) <= 4]
            if not cand:
                continue
            doc.pop("fault_plan", None)
            doc["orders"] = {"op": g_pick(cand, verif_seed, idx), "max": 120 if tier == "quick" else 160}
            yield {"id": "orders%d" % made, "engine": NAME, "func": "orders", "doc": doc, "wall_cap": 7200}
            made += 1
    if prop == "C14":
        ns = int(os.environ.get("VERIF_SWEEPS") or SPECS["C14"]["sweeps_" + tier])
        made = 0
        idx = 10**6
        while made < ns and idx < 10**6 + 50 * ns + 50:
            doc = generate("C14", verif_seed, idx, tier, cls=("poison", "z3", "seq", "z3", "poison", "z3", "relapse", "z3")[made % 8], recover=True)
            idx += 1
            want_multi = tier == "thorough" and made % 8 == 7
            if want_multi:
                doc = generate("C14", verif_seed, idx, tier, cls="par", recover=True)
            cand = [i for i, op in enumerate(doc["ops"]) if op["op"] == "inference" and _budget_of(op) > 0 and bool(op.get("multi")) == want_multi]
            if not cand:
                continue
            sweep = {"op": cand[0], "max_positions": 120 if tier == "quick" else 400, "pairs": tier == "thorough" or made % 4 == 0}
            if doc.get("class") == "relapse" and len(cand) >= 2 and isinstance(doc.get("fault_plan"), list):
                # the first expiry is seeded, EVERY position of the second budgeted call is tried after it
                sweep["op"] = cand[1]
                sweep["prefix_plan"] = doc["fault_plan"][0]
            doc.pop("fault_plan", None)
            doc["sweep"] = sweep
            yield {"id": "sweep%d" % made, "engine": NAME, "func": "sweep", "doc": doc, "wall_cap": 7200}
            made += 1
    for i in range(n):
        yield {"id": jid, "engine": NAME, "func": "execute", "doc": generate(prop, verif_seed, i, tier), "wall_cap": 120}
        jid += 1


def g_pick(cand, verif_seed, idx):
    return cand[derive(verif_seed, "orders-pick", idx) % len(cand)]


def sample_view(res):
    d = res["doc"]
    return {
        "class": d.get("class"),
        "base": d["base"]["text"],
        "ops": d["ops"],
        "faults": d.get("faults"),
        "faults_fired": res.get("fired"),
        "virtual_seconds": res.get("vtime"),
    }


def features(doc, v):
    ops = doc["ops"]
    cfgs = [op for op in ops if op["op"] == "new_manager"]
    f = {"class": v["class"], "fault_kinds": sorted({x["kind"] + ("/" + x["unknown"] if "unknown" in x else "") for x in doc.get("faults") or []})}
    o = v.get("op")
    if o is not None and 0 <= o < len(ops) and ops[o]["op"] == "inference":
        op = ops[o]
        cfg = cfgs[op["mgr"]]
        f["system"] = cfg["system"]
        f["pmaxsat"] = cfg["pmaxsat"]
        f["weakly"] = bool(cfg["weakly"])
        f["multi"] = bool(op.get("multi"))
        texts = [t for _, t in op["batch"]]
        f["dup_texts"] = len(set(texts)) != len(texts)
        f["earlier_calls_on_manager"] = sum(1 for p in ops[:o] if p["op"] == "inference" and p["mgr"] == op["mgr"])
        f["budgeted"] = _budget_of(op) > 0
    return f


def _split_base(text):
    i, j = text.find("{"), text.rfind("}")
    head, body, tail = text[: i + 1], text[i + 1 : j], text[j:]
    items = []
    for line in body.split("\n"):
        s = line.strip()
        if not s:
            continue
        if s.endswith(","):
            s = s[:-1].rstrip()
        items.append(s)
    return head, items, tail


def _join_base(head, items, tail):
    return head + "\n" + ",\n".join("  " + s for s in items) + "\n" + tail


def _drop_op(doc, i):
    ops = [dict(o) for o in doc["ops"]]
    removed = ops.pop(i)
    faults = []
    for f in doc.get("faults") or []:
        if f["op"] == i:
            continue
        f = dict(f)
        if f["op"] > i:
            f["op"] -= 1
        faults.append(f)
    if removed["op"] == "new_manager":
        m = sum(1 for o in doc["ops"][:i] if o["op"] == "new_manager")
        for o in ops:
            if o["op"] == "inference" and o["mgr"] > m:
                o["mgr"] -= 1
    return dict(doc, ops=ops, faults=faults)


def shrink_candidates(doc):
    doc = {k: v for k, v in doc.items() if k != "fault_plan"}
    doc.setdefault("faults", [])
    ops = doc["ops"]
    # 1. drop faults
    for i in range(len(doc["faults"])):
        yield dict(doc, faults=doc["faults"][:i] + doc["faults"][i + 1 :])
    # 2. drop inference calls
    for i, op in enumerate(ops):
        if op["op"] == "inference":
            yield _drop_op(doc, i)
    # 3. drop managers nobody uses
    used = {op["mgr"] for op in ops if op["op"] == "inference"}
    m = -1
    for i, op in enumerate(ops):
        if op["op"] == "new_manager":
            m += 1
            if m not in used:
                yield _drop_op(doc, i)
    # 4. drop queries from batches (faults addressed to workers of that call are dropped)
    for i, op in enumerate(ops):
        if op["op"] == "inference" and len(op["batch"]) > 1:
            for j in range(len(op["batch"])):
                o2 = dict(op, batch=op["batch"][:j] + op["batch"][j + 1 :])
                if o2.get("latencies"):
                    o2["latencies"] = o2["latencies"][:j] + o2["latencies"][j + 1 :]
                fl = []
                for f in doc["faults"]:
                    if f["op"] == i and f.get("worker") is not None:
                        if f["worker"] == j:
                            continue
                        if f["worker"] > j:
                            f = dict(f, worker=f["worker"] - 1)
                    fl.append(f)
                yield dict(doc, ops=ops[:i] + [o2] + ops[i + 1 :], faults=fl)
    # 5. drop conditionals from the base
    try:
        head, items, tail = _split_base(doc["base"]["text"])
        if len(items) > 1:
            for j in range(len(items)):
                yield dict(doc, base=dict(doc["base"], text=_join_base(head, items[:j] + items[j + 1 :], tail)))
    except Exception:  # noqa: BLE001
        pass
    # 6. simplifications
    for i, op in enumerate(ops):
        if op["op"] == "inference":
            if op.get("multi") and not any(f["op"] == i and f.get("worker") is not None for f in doc["faults"]):
                o2 = {k: v for k, v in op.items() if k not in ("latencies",)}
                o2["multi"] = False
                yield dict(doc, ops=ops[:i] + [o2] + ops[i + 1 :])
            for b in ("total", "pre", "inf"):
                if op.get(b):
                    o2 = {k: v for k, v in op.items() if k != b}
                    yield dict(doc, ops=ops[:i] + [o2] + ops[i + 1 :])
            keys = [k for k, _ in op["batch"]]
            if keys != list(range(1, len(keys) + 1)):
                o2 = dict(op, batch=[[n + 1, t] for n, (_, t) in enumerate(op["batch"])])
                yield dict(doc, ops=ops[:i] + [o2] + ops[i + 1 :])
            if op.get("latencies") and any(l != 0.001 for l in op["latencies"]):
                yield dict(doc, ops=ops[:i] + [dict(op, latencies=[0.001] * len(op["latencies"]))] + ops[i + 1 :])
    if doc.get("knobs", {}).get("svc_scale", 1.0) != 1.0:
        yield dict(doc, knobs=dict(doc["knobs"], svc_scale=1.0))
    if doc.get("knobs", {}).get("loglevel"):
        yield dict(doc, knobs={k: v for k, v in doc["knobs"].items() if k != "loglevel"})
    # 6b. simpler formulas: a query text (everywhere it occurs) or a base conditional is replaced
    #     by one with a sub-formula in place of its consequent / antecedent
    from sim.models.evalformula import simpler_conditionals

    texts = []
    for op in ops:
        if op["op"] == "inference":
            for _, t in op["batch"]:
                if t not in texts:
                    texts.append(t)
    for t in texts:
        for t2 in simpler_conditionals(t):
            yield dict(doc, ops=[dict(op, batch=[[k, (t2 if x == t else x)] for k, x in op["batch"]]) if op["op"] == "inference" else op for op in ops])
    try:
        head, items, tail = _split_base(doc["base"]["text"])
        for j, it in enumerate(items):
            for it2 in simpler_conditionals(it.replace(" ", "")):
                yield dict(doc, base=dict(doc["base"], text=_join_base(head, items[:j] + [it2] + items[j + 1 :], tail)))
    except Exception:  # noqa: BLE001
        pass
    # 7. smaller fault durations
    for i, f in enumerate(doc["faults"]):
        if f.get("dur") and f["dur"] > 0.01:
            for d in (round(f["dur"] / 2, 6),):
                yield dict(doc, faults=doc["faults"][:i] + [dict(f, dur=d)] + doc["faults"][i + 1 :])
