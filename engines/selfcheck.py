"""Tiny jobs used by ./check setup."""
from sim import seams


def job_bindings(doc):
    import inference.inference as ii
    import inference.preocf as P
    from sim import simfs, simmp

    bad = seams.verify_bindings()
    if ii.mp is not simmp.SIMMP:
        bad.append("inference.inference.mp")
    if P.pathlib is not simfs.SHIM:
        bad.append("inference.preocf.pathlib")
    import z3

    return {"bad": bad, "z3": z3.get_version_string(), "repo": seams.REPO_PREFIX}
