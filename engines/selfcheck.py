"""Tiny jobs used by ./check setup."""
from sim import seams


def job_bindings(doc):
    import inference.inference as ii
    import inference.preocf as P
    from sim import simfs, simmp

    bad = seams.verify_bindings()
    if ii.mp is not simmp.SIMMP:
        bad.append("inference.inference.mp")
    if P.pathlib is not simfs.SHIM:
        bad.append("inference.preocf.pathlib")
    import z3

    return {"bad": bad, "z3": z3.get_version_string(), "repo": seams.REPO_PREFIX}


def job_addresses(doc):
    """Addresses of a few freshly allocated objects (probe for the reproducibility of id())."""
    from parser.Wrappers import parseQuery

    a = [id(object()) & 0xFFFFFF for _ in range(3)]
    qs = [id(list(parseQuery(t).values())[0]) & 0xFFFFFF for t in ("(b|a)", "(c|a,b)", "(!a|b;c)")]
    return {"obj": a, "cond": qs}
