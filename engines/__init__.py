"""Engines: the three simulations.  ``resolve`` maps (engine, func) to a callable run in a
forked scenario child of the zygote."""
import importlib


def resolve(engine, func):
    if engine not in ("mgrsim", "ocfsim", "revsim", "selfcheck"):
        raise ValueError("unknown engine %r" % engine)
    mod = importlib.import_module("engines." + engine)
    fn = getattr(mod, "job_" + func, None)
    if fn is None:
        raise ValueError("unknown job %s.%s" % (engine, func))
    return fn
