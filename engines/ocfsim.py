"""ocfsim: histories on ranking objects.

C16: lazy-rank cache of the System Z ranking object vs. the reference model RefZ, in any order of
     lazy/forced/all-at-once computation, with interrupted solver calls and save/load in between.
C20: persistence: save/load histories, reload in a pristine process, failing saves on a simulated
     file system (open errors, torn writes at byte k, close errors, unserialisable members).
"""
import copy
import hashlib
import json
import os
import pickle
import shutil
import subprocess
import sys
import traceback

from sim import seams, simfs
from sim.models import evalformula as EF
from sim.models.refz import RefZ, falsifies
from sim.prng import derive, stream

NAME = "ocfsim"
DIAG_KEYS = (
    "facts_consistent",
    "belief_base_consistent",
    "belief_base_weakly_consistent",
    "combination_consistent",
    "combination_infinity_increase",
)


# ======================================================================================
# pristine restart helper (a fork of the scenario child taken before anything was created)
# ======================================================================================
def _eval_loaded(req):
    """Runs in a pristine process: load the pickle and answer the questions in ``req``."""
    from inference.preocf import PreOCF
    from parser.Wrappers import parseQuery

    out = {}
    try:
        if req.get("files") is not None:
            fsys = simfs.activate(8192)
            fsys.files.update(req["files"])
        if req.get("warmup"):
            # the loading process is not empty: it has already built and ranked another object
            from parser.Wrappers import parse_belief_base

            wbb = parse_belief_base(req["warmup"])
            wo = PreOCF.init_system_z(wbb)
            wo.compute_all_ranks()
            out["warmup_worlds"] = len(wo.ranks)
        o = PreOCF.load_ocf(req["path"], trusted=True)
        out["desc"] = _describe(o)
        out["sample"] = {w: o.rank_world(w) for w in req.get("worlds", [])}
        acc = {}
        for qt in req.get("queries", []):
            q = list(parseQuery(qt).values())[0]
            acc[qt] = bool(o.conditional_acceptance(q))
        out["accept"] = acc
        if getattr(o, "conditionals", None):
            out["own_accept"] = [bool(o.conditional_acceptance(c)) for c in list(o.conditionals.values())[: int(req.get("nown", 0))]]
        else:
            out["own_accept"] = []
        if req.get("full"):
            out["full"] = dict(o.compute_all_ranks())
        out["has_solver_attrs"] = [hasattr(o, "_optimizer"), hasattr(o, "_csp")]
    except BaseException as e:  # noqa: BLE001
        out["exc"] = "%s: %s" % (type(e).__name__, str(e)[:300])
        out["tb"] = traceback.format_exc()[-1500:]
    return out


class RestartHelper:
    def __init__(self):
        self.req_r, self.req_w = os.pipe()
        self.res_r, self.res_w = os.pipe()
        self.pid = os.fork()
        if self.pid == 0:
            try:
                os.close(self.req_w)
                os.close(self.res_r)
                self._serve()
            finally:
                os._exit(0)
        os.close(self.req_r)
        os.close(self.res_w)

    @staticmethod
    def _read_msg(fd):
        hdr = b""
        while len(hdr) < 8:
            b = os.read(fd, 8 - len(hdr))
            if not b:
                return None
            hdr += b
        n = int.from_bytes(hdr, "big")
        data = b""
        while len(data) < n:
            b = os.read(fd, min(1 << 16, n - len(data)))
            if not b:
                return None
            data += b
        return pickle.loads(data)

    @staticmethod
    def _write_msg(fd, obj):
        data = pickle.dumps(obj)
        data = len(data).to_bytes(8, "big") + data
        off = 0
        while off < len(data):
            off += os.write(fd, data[off : off + 65536])

    def _serve(self):
        while True:
            req = self._read_msg(self.req_r)
            if req is None:
                return
            pid = os.fork()
            if pid == 0:
                try:
                    self._write_msg(self.res_w, _eval_loaded(req))
                finally:
                    os._exit(0)
            os.waitpid(pid, 0)

    def ask(self, req):
        self._write_msg(self.req_w, req)
        res = self._read_msg(self.res_r)
        if res is None:
            raise seams.HarnessError("restart helper died")
        return res

    def close(self):
        try:
            os.close(self.req_w)
            os.close(self.res_r)
            os.waitpid(self.pid, 0)
        except Exception:  # noqa: BLE001
            pass


_EXEC_LOADER = r"""
import sys, json, pickle, os
sys.path.insert(0, %(verif)r)
if %(repo)r: sys.path.insert(0, %(repo)r)
os.environ.setdefault('INFOCF_LOGLEVEL','ERROR')
import warnings; warnings.filterwarnings('ignore')
from engines import ocfsim
req = json.loads(sys.argv[1])
res = ocfsim._eval_loaded(req)
sys.stdout.write('\n@@RESULT@@' + json.dumps(res, default=str))
"""


def _exec_eval(req, blob):
    """Really exec a new interpreter; the pickle goes through the real file system."""
    d = "/tmp/infocf-verif-exec-%d" % os.getpid()
    os.makedirs(d, exist_ok=True)
    try:
        path = os.path.join(d, os.path.basename(req["path"]))
        with open(path, "wb") as f:
            f.write(blob)
        r2 = dict(req, path=path, files=None)
        env = dict(os.environ)
        env["PYTHONHASHSEED"] = "0"
        code = _EXEC_LOADER % {"verif": os.path.dirname(os.path.dirname(os.path.abspath(__file__))), "repo": os.environ.get("VERIF_REPO", "")}
        # the real child process lives in real time: the virtual clock (and virtual sleep) must not
        # drive subprocess's own waiting loop
        sim = seams.SIM
        was_active = sim.active if sim is not None else False
        if sim is not None:
            sim.active = False
        try:
            p = subprocess.run([sys.executable, "-c", code, json.dumps(r2)], capture_output=True, text=True, env=env, timeout=600)
        except subprocess.TimeoutExpired:
            raise seams.HarnessError("exec loader timed out")
        finally:
            if sim is not None:
                sim.active = was_active
        if "@@RESULT@@" not in p.stdout:
            raise seams.HarnessError("exec loader failed: %s" % (p.stderr[-500:],))
        return json.loads(p.stdout.split("@@RESULT@@", 1)[1])
    finally:
        shutil.rmtree(d, ignore_errors=True)


# ======================================================================================
# helpers
# ======================================================================================
def _describe(o):
    return {
        "cls": type(o).__name__,
        "signature": list(o.signature) if o.signature is not None else None,
        "ranking_system": o.ranking_system,
        "impacts": list(o._impacts) if getattr(o, "_impacts", None) is not None else None,
        "ranks": dict(o.ranks),
    }


def _jsonable(x):
    return json.loads(json.dumps(x))


def _viol(cls, op, **detail):
    return {"class": cls, "op": op, "row": None, "detail": detail}


class Run:
    """One execution of a scenario (twin or run under test)."""

    def __init__(self, doc, S, phase, faults, helper, skip_faulty, sizes=None):
        from parser.Wrappers import parse_belief_base

        self.doc = doc
        self.S = S
        self.phase = phase
        self.helper = helper
        self.skip_faulty = skip_faulty  # twin: failing saves are skipped
        self.prop = doc["property"]
        self.viol = []
        self.obs = []  # observations per op (compared twin vs. run for C20)
        self.sizes = dict(sizes or {})  # op index -> size of the file a fault-free save writes (from the twin)
        S.begin_phase(phase, faults)
        S.begin_op(-1)
        self.fs = simfs.activate(int((doc.get("knobs") or {}).get("bufsize", 8192)))
        # slot 0 is the object of the scenario; C16 scenarios may hold a second System Z object over
        # the same signature (another base / facts / mode) whose operations are interleaved
        self.slots = []
        self.cur = 0
        specs = [(doc["obj"], doc["base"]["text"])]
        if doc.get("obj2"):
            specs.append((doc["obj2"], doc["obj2"].get("base") or doc["base"]["text"]))
        self.other = None  # an unrelated object that also writes to the scenario's paths ("clobber")
        for spec, text in specs:
            if spec.get("same_base") and self.slots:
                bb = self.slots[0]["bb"]  # a second ranking object over the SAME BeliefBase object
            else:
                bb = parse_belief_base(text)
            for k in (doc["base"].get("drop_keys") or []) if spec is doc["obj"] else []:
                # programmatic edit of the parsed base: keys are no longer 1..n
                bb.conditionals.pop(int(k), None)
            self.slots.append(
                {
                    "spec": spec,
                    "bb": bb,
                    "sig": list(bb.signature),
                    "keys": list(bb.conditionals.keys()),
                    "conds_ast": [(EF.from_pysmt(c.consequence), EF.from_pysmt(c.antecedence)) for c in bb.conditionals.values()],
                    "obj": None,
                    "ref": None,
                    "kind": spec["kind"],
                    "created": False,
                    "ranks_now": dict(spec["ranks"]) if spec.get("ranks") else None,
                }
            )
        self.created = False
        self.refused = False

    # -- the current slot ---------------------------------------------------------------------
    def _slot(self):
        return self.slots[self.cur]

    bb = property(lambda self: self._slot()["bb"])
    sig = property(lambda self: self._slot()["sig"])
    keys = property(lambda self: self._slot()["keys"])
    conds_ast = property(lambda self: self._slot()["conds_ast"])
    kind = property(lambda self: self._slot()["kind"])
    spec = property(lambda self: self._slot()["spec"])

    @property
    def obj(self):
        return self._slot()["obj"]

    @obj.setter
    def obj(self, v):
        self._slot()["obj"] = v

    @property
    def ref(self):
        return self._slot()["ref"]

    @ref.setter
    def ref(self, v):
        self._slot()["ref"] = v

    # -- reference ranks ------------------------------------------------------------------
    def ref_rank(self, w, obj=None):
        obj = obj or self.obj
        if self.kind == "system-z":
            return self.ref.rank(w)
        if self.kind == "custom":
            return self._slot()["ranks_now"].get(w)
        # c-representation object: sum of the impacts of the falsified conditionals
        world = {self.sig[i]: w[i] == "1" for i in range(len(self.sig))}
        r = 0
        for key, c in zip(self.keys, self.conds_ast):
            if falsifies(c, world):
                r += obj._impacts[key - 1]
        return r

    def v(self, cls, op, **detail):
        self.viol.append(_viol(self.prop + ":" + cls, op, **detail))

    # -- creation ---------------------------------------------------------------------------
    def create(self):
        ok = True
        for n in range(len(self.slots)):
            self.cur = n
            made = self._create_one()
            self.slots[n]["created"] = bool(made)
            if n == 0:
                ok = bool(made)
                if not ok:
                    break
        self.cur = 0
        return ok

    def _create_one(self):
        from inference.preocf import PreOCF
        from parser.Wrappers import parse_formula

        o = self.spec
        meta = copy.deepcopy(o.get("metadata")) if o.get("metadata") is not None else None
        if self.kind == "system-z":
            facts = o.get("facts") or None
            ext = o.get("extended")
            facts_ast = [EF.from_pysmt(parse_formula(f)) for f in (facts or [])]
            computed_ext = ext if ext is not None else bool(facts)
            self.ref = RefZ(self.sig, self.conds_ast, extended=computed_ext, facts=facts_ast)
            try:
                given = list(facts) if facts else None
                if given and o.get("facts_as_nodes"):
                    given = [parse_formula(f) for f in given]  # facts may be formula objects as well as strings
                self.obj = PreOCF.init_system_z(self.bb, metadata=meta, facts=given, extended=ext)
            except ValueError as e:
                if self.cur == 0:
                    self.refused = True
                msg = str(e)
                self.S.trace("create.refused", msg[:200])
                if self.prop == "C16":
                    if self.ref.consistent:
                        self.v("facts_wrongly_refused", -1, msg=msg[:300])
                    elif facts:
                        want = self.ref.diagnostics()
                        got = {}
                        import re

                        for k, val in re.findall(r"(\w+)=(True|False|None)", msg):
                            got[k] = {"True": True, "False": False, "None": None}[val]
                        bad = {k: [got.get(k, "absent"), want.get(k)] for k in DIAG_KEYS if got.get(k, "absent") != want.get(k)}
                        if bad:
                            self.v("diagnostics_mismatch", -1, flags=bad, msg=msg[:300])
                return False
            except seams.HarnessError:
                raise
            except Exception as e:  # noqa: BLE001
                self.refused = True
                if self.prop == "C16":
                    self.v("exception_create:" + type(e).__name__, -1, msg=str(e)[:300], tb=traceback.format_exc()[-800:])
                return False
            if not self.ref.consistent:
                if self.prop == "C16" and facts:
                    # "an unsatisfiable combination [of base and facts] is refused"
                    self.v("inconsistent_not_refused", -1, facts=facts, extended=ext)
                else:
                    # a base that is inconsistent for the chosen mode WITHOUT facts is outside the
                    # statement ("for every consistent belief base"): nothing to check
                    self.S.probe("out_of_domain_base")
                return False
        elif self.kind == "crep":
            try:
                self.obj = PreOCF.init_random_min_c_rep(self.bb, metadata=meta)
            except seams.HarnessError:
                raise
            except Exception as e:  # noqa: BLE001  (construction is C17's subject, not C20's)
                self.refused = True
                self.S.trace("create.failed", type(e).__name__)
                return False
            if o.get("impacts") is not None:
                from inference.preocf import RandomMinCRepPreOCF

                self.obj = RandomMinCRepPreOCF.init_with_impacts_list(self.bb, list(o["impacts"]), metadata=meta)
        elif self.kind == "custom":
            self.obj = PreOCF.init_custom(dict(o["ranks"]), self.bb if o.get("with_bb") else None, self.sig, meta)
        else:
            raise seams.HarnessError("unknown object kind %r" % self.kind)
        self.S.trace_addr(id(self.obj) & 0xFFFFFFF)
        if self.cur == 0:
            self.created = True
            self.first_impacts = list(getattr(self.obj, "_impacts", None) or [])
        self.S.trace("create", self.kind, _describe(self.obj)["cls"])
        return True

    # -- invariants --------------------------------------------------------------------------
    def check_table(self, op, obj=None):
        if self.prop != "C16":
            return
        for n, sl in enumerate(self.slots):
            if not sl["created"] or sl["obj"] is None or sl["ref"] is None:
                continue
            for w, r in sl["obj"].ranks.items():
                if r is not None and r != sl["ref"].rank(w):
                    self.v("cache_garbage", op, world=w, got=r, want=sl["ref"].rank(w), object=n)
                    return

    def _cond(self, text):
        from parser.Wrappers import parseQuery

        return list(parseQuery(text).values())[0]

    def _formula(self, text):
        from parser.Wrappers import parse_formula

        return parse_formula(text)

    # -- the operation alphabet ---------------------------------------------------------------
    def do_op(self, i, op):
        S = self.S
        S.begin_op(i)
        kind = op["op"]
        fired_before = dict(S.fired)
        ob = {"op": i, "kind": kind}
        self.cur = int(op.get("on", 0))
        if self.cur >= len(self.slots) or not self.slots[self.cur]["created"]:
            self.cur = 0
            ob["skipped"] = "no such object"
            self.obs.append(ob)
            return
        try:
            getattr(self, "op_" + kind)(i, op, ob)
        except seams.HarnessError:
            raise
        except Exception as e:  # noqa: BLE001
            interrupted = S.fired.get("interrupt", 0) > fired_before.get("interrupt", 0)
            ob["exc"] = type(e).__name__
            if not interrupted:
                self.v("exception:" + type(e).__name__, i, opkind=kind, msg=str(e)[:300], tb=traceback.format_exc()[-900:])
            else:
                ob["interrupted"] = True
        self.check_table(i)
        self.cur = 0
        S.trace("obs", json.dumps(ob, sort_keys=True, default=str)[:2000])
        self.obs.append(ob)

    def op_rank(self, i, op, ob):
        w = op["w"]
        r = self.obj.rank_world(w, bool(op.get("force"))) if op.get("force") is not None else self.obj.rank_world(w)
        ob["r"] = r
        if self.prop == "C16" and r != self.ref.rank(w):
            self.v("wrong_rank", i, world=w, got=r, want=self.ref.rank(w), force=op.get("force"))

    def op_all(self, i, op, ob):
        t = dict(self.obj.compute_all_ranks())
        ob["table"] = t
        if self.prop == "C16":
            bad = {w: [t.get(w), self.ref.rank(w)] for w in self.ref.table if t.get(w) != self.ref.rank(w)}
            if bad or set(t) != set(self.ref.table):
                self.v("all_ranks_mismatch", i, diff=dict(list(bad.items())[:4]))

    def op_read(self, i, op, ob):
        ob["cached"] = sum(1 for r in self.obj.ranks.values() if r is not None)

    def op_frank(self, i, op, ob):
        f = self._formula(op["f"])
        r = self.obj.formula_rank(f)
        ob["r"] = r
        if self.prop == "C16":
            want = self.ref.formula_rank(EF.from_pysmt(f))
            if r != want:
                self.v("formula_rank", i, f=op["f"], got=r, want=want)

    def op_accept(self, i, op, ob):
        q = self._cond(op["q"])
        a = bool(self.obj.conditional_acceptance(q))
        ob["a"] = a
        if self.prop == "C16":
            qa = (EF.from_pysmt(q.consequence), EF.from_pysmt(q.antecedence))
            if self.ref.antecedent_feasible(qa) and a != self.ref.accepts(qa):
                self.v("acceptance_vs_reference", i, q=op["q"], got=a, want=self.ref.accepts(qa))

    def op_cond(self, i, op, ob):
        f = self._formula(op["f"])
        t = dict(self.obj.compute_conditionalization(f))
        ob["t"] = t
        if self.prop == "C16":
            fa = EF.from_pysmt(f)
            want = {b: self.ref.rank(b) for b, w in self.ref.worlds if EF.ev(fa, w)}
            if t != want:
                self.v("conditionalization", i, f=op["f"], got=t, want=want)

    def op_existing(self, i, op, ob):
        f = self._formula(op["f"])
        t = dict(self.obj.conditionalize_existing_ranks(f))
        ob["t"] = t
        if self.prop == "C16":
            fa = EF.from_pysmt(f)
            ws = {b for b, w in self.ref.worlds if EF.ev(fa, w)}
            if set(t) != ws or any(r is not None and r != self.ref.rank(b) for b, r in t.items()):
                self.v("existing_ranks", i, f=op["f"], got=t)

    def op_rebuild(self, i, op, ob):
        """The user replaces one conditional of the SAME BeliefBase object (same key set) and builds
        a new ranking object from it, which becomes the object of this slot."""
        sl = self._slot()
        key = int(op["key"])
        if key not in sl["bb"].conditionals:
            ob["skipped"] = "no such key"
            return
        sl["bb"].conditionals[key] = self._cond(op["cond"])
        sl["keys"] = list(sl["bb"].conditionals.keys())
        sl["conds_ast"] = [(EF.from_pysmt(c.consequence), EF.from_pysmt(c.antecedence)) for c in sl["bb"].conditionals.values()]
        sl["created"] = bool(self._create_one())
        ob["created"] = sl["created"]

    def op_clobber(self, i, op, ob):
        """Something else writes an unrelated object to one of the scenario's paths."""
        from inference.preocf import PreOCF

        if self.other is None:
            n = len(self.sig)
            self.other = PreOCF.init_custom({format(k, "0%db" % n): (k * 7) % 5 for k in range(2**n)}, None, list(self.sig), {"owner": "someone else"})
        self.other.save_ocf(op["path"])
        ob["size"] = len(self.fs.files.get(op["path"], b""))

    def op_edit_rank(self, i, op, ob):
        """The user revises one value of a custom ranking (the number of ranks stays the same)."""
        if self.kind != "custom":
            ob["skipped"] = "not a custom ranking"
            return
        self.obj.ranks[op["w"]] = int(op["v"])
        self._slot()["ranks_now"][op["w"]] = int(op["v"])
        ob["w"] = op["w"]

    def op_crev(self, i, op, ob):
        """c-revision compilation over the object ranks worlds lazily in its own order."""
        from inference.c_revision import compile_alt_fast

        conds = []
        for n, t in enumerate(op["conds"], start=1):
            c = self._cond(t)
            c.index = n
            conds.append(c)
        vmin, fmin = compile_alt_fast(self.obj, conds)
        ranks = sorted({tr[0] for d in (vmin, fmin) for lst in d.values() for tr in lst})
        ob["ranks"] = ranks

    # -- persistence --------------------------------------------------------------------------
    def _sample_questions(self, op):
        g = stream(self.doc["seed"], "sample", op.get("sseed", 0))
        worlds = list(self.obj.ranks.keys())
        ws = g.sample(worlds, min(len(worlds), int(op.get("nworlds", 4))))
        qs = list(self.doc.get("queries") or [])
        qs = g.sample(qs, min(len(qs), int(op.get("nqueries", 2))))
        if self.kind == "custom":
            ws = [w for w in ws if self.obj.ranks.get(w) is not None]
        return ws, qs

    def _compare_loaded(self, i, snap, orig_sample, orig_accept, got, where, full_want=None):
        d = got.get("desc")
        if got.get("exc"):
            self.v("load_failed:" + got["exc"].split(":")[0], i, where=where, msg=got["exc"], tb=got.get("tb"))
            return
        if d["cls"] != snap["cls"]:
            self.v("roundtrip_class", i, where=where, got=d["cls"], want=snap["cls"])
        if d["signature"] != snap["signature"] or d["ranking_system"] != snap["ranking_system"]:
            self.v("roundtrip_signature", i, where=where, got=[d["signature"], d["ranking_system"]], want=[snap["signature"], snap["ranking_system"]])
        if d["impacts"] != snap["impacts"]:
            self.v("roundtrip_impacts", i, where=where, got=d["impacts"], want=snap["impacts"])
        if d["ranks"] != snap["ranks"]:
            diff = {w: [d["ranks"].get(w, "absent"), r] for w, r in snap["ranks"].items() if d["ranks"].get(w, "absent") != r}
            self.v("roundtrip_ranks", i, where=where, diff=dict(list(diff.items())[:4]))
        if got.get("sample") != orig_sample:
            self.v("roundtrip_lazy", i, where=where, got=got.get("sample"), want=orig_sample)
        if got.get("accept") != orig_accept:
            self.v("roundtrip_acceptance", i, where=where, got=got.get("accept"), want=orig_accept)
        if full_want is not None and got.get("full") != full_want:
            diff = {w: [got.get("full", {}).get(w, "absent"), r] for w, r in full_want.items() if got.get("full", {}).get(w, "absent") != r}
            self.v("roundtrip_full_table", i, where=where, diff=dict(list(diff.items())[:4]))

    def _load_and_compare(self, i, op, path, where, snap, full=False):
        """Load ``path`` (in process / pristine restart / exec) and compare with the original."""
        from inference.preocf import PreOCF

        ws, qs = self._sample_questions(op)
        # acceptance of the object's own (after loading: unpickled) conditionals
        nown = 2 if (self.kind != "custom" and getattr(self.obj, "conditionals", None)) else 0
        got = None
        loaded = None
        if where == "inproc":
            got = {}
            try:
                loaded = PreOCF.load_ocf(path, trusted=True)
                got["desc"] = _describe(loaded)
                got["sample"] = {w: loaded.rank_world(w) for w in ws}
                got["accept"] = {qt: bool(loaded.conditional_acceptance(self._cond(qt))) for qt in qs}
                got["own_accept"] = [bool(loaded.conditional_acceptance(c)) for c in list((loaded.conditionals or {}).values())[:nown]]
                if full:
                    got["full"] = dict(loaded.compute_all_ranks())
            except seams.HarnessError:
                raise
            except Exception as e:  # noqa: BLE001
                got["exc"] = "%s: %s" % (type(e).__name__, str(e)[:300])
                got["tb"] = traceback.format_exc()[-900:]
        else:
            req = {"path": path, "worlds": ws, "queries": qs, "full": full, "nown": nown}
            if self.doc.get("restart_warmup"):
                req["warmup"] = self.doc["restart_warmup"]
            if where == "restart":
                req["files"] = {path: self.fs.files[path]}
                got = self.helper.ask(req)
                self.S.probe("restart_loads")
            else:
                got = _exec_eval(req, self.fs.files[path])
                self.S.probe("exec_loads")
            if got.get("sample") is not None:
                got["sample"] = {w: r for w, r in got["sample"].items()}
        # the original answers the same questions AFTER the snapshot was taken
        orig_sample = {w: self.obj.rank_world(w) for w in ws}
        orig_accept = {qt: bool(self.obj.conditional_acceptance(self._cond(qt))) for qt in qs}
        orig_own = [bool(self.obj.conditional_acceptance(c)) for c in list((self.obj.conditionals or {}).values())[:nown]] if nown else []
        full_want = dict(self.obj.compute_all_ranks()) if full else None
        self._compare_loaded(i, snap, orig_sample, orig_accept, got, where, full_want)
        if not got.get("exc") and got.get("own_accept") is not None and list(got.get("own_accept")) != orig_own:
            self.v("roundtrip_acceptance_of_own_conditionals", i, where=where, got=got.get("own_accept"), want=orig_own)
        return loaded

    def _solver_ids(self):
        o = self.obj
        return (id(getattr(o, "_optimizer", None)), id(getattr(o, "_csp", None)), hasattr(o, "_optimizer"), hasattr(o, "_csp"))

    def _deep_snapshot(self):
        o = self.obj
        return {
            "ranks": dict(o.ranks),
            "impacts": list(o._impacts) if getattr(o, "_impacts", None) is not None else None,
            "metadata_keys": list(o.metadata.keys()),
            "metadata": {k: (v if callable(v) or not _is_plain(v) else copy.deepcopy(v)) for k, v in o.metadata.items()},
            "state": {k: (v if not _is_plain(v) else copy.deepcopy(v)) for k, v in o._state.items()},
            "solver": self._solver_ids(),
            "signature": list(o.signature),
            "dict_keys": sorted(o.__dict__.keys()),
        }

    def _compare_unchanged(self, i, before, what):
        after = self._deep_snapshot()
        for k in ("ranks", "impacts", "metadata_keys", "signature", "dict_keys", "solver"):
            if after[k] != before[k]:
                self.v("failed_save_changed_object:" + k, i, what=what, before=str(before[k])[:300], after=str(after[k])[:300])
                return
        for part in ("metadata", "state"):
            if set(after[part]) != set(before[part]):
                self.v("failed_save_changed_object:" + part, i, what=what, before=sorted(before[part]), after=sorted(after[part]))
                return
            for k, v in before[part].items():
                a = after[part][k]
                same = (a is v) if (callable(v) or not _is_plain(v)) else (a == v)
                if not same:
                    self.v("failed_save_changed_object:" + part, i, what=what, key=k)
                    return

    def op_saveload(self, i, op, ob):
        path = op["path"]
        snap = _describe(self.obj)
        sid = self._solver_ids()
        self.obj.save_ocf(path)
        if self._solver_ids() != sid:
            self.v("save_changed_solver_state", i, before=sid, after=self._solver_ids())
        if _describe(self.obj) != snap:
            self.v("save_changed_object", i)
        ob["size"] = len(self.fs.files.get(path, b""))
        loaded = self._load_and_compare(i, op, path, op.get("where", "inproc"), snap, full=bool(op.get("full")))
        if op.get("adopt") and loaded is not None:
            self.obj = loaded
            ob["adopted"] = True

    def op_savefail(self, i, op, ob):
        """A save with an injected failure.  In the twin the operation is skipped."""
        target = op["target"]
        path = op["path"]
        fault = op["fault"]
        o = self.obj
        if self.skip_faulty:
            # undisturbed twin: the same save without the fault, and the same questions afterwards
            ob["skipped"] = True
            if target == "ocf":
                o.save_ocf(path)
            elif target == "meta":
                o.save_metadata(path, fmt=op.get("fmt", "json"))
            else:
                o.export_impacts(path, fmt=op.get("fmt", "json"))
            self.sizes[i] = len(self.fs.files.get(path, b""))
            self._verify_written(i, op, target, path, _describe(o), "in the undisturbed twin")
            return
        inserted = None
        if fault["kind"] == "unserialisable":
            what = fault["what"]
            if what == "lambda_meta":
                o.metadata["__verif_unserialisable__"] = lambda: None  # noqa: E731
                inserted = ("metadata", "__verif_unserialisable__")
            elif what == "lambda_state":
                o._state["__verif_unserialisable__"] = lambda: None  # noqa: E731
                inserted = ("state", "__verif_unserialisable__")
            elif what == "tuple_key":
                o.metadata[("verif", 1)] = 1
                inserted = ("metadata", ("verif", 1))
            elif what == "cycle":
                cyc = []
                cyc.append(cyc)
                o.metadata["__verif_cycle__"] = cyc
                inserted = ("metadata", "__verif_cycle__")
            self.S.fire("unserialisable_" + what)
        else:
            if fault["kind"] == "write" and "frac" in fault:
                # place the torn write inside the serialised form measured by the twin
                size = int(self.sizes.get(i, 0)) or 1
                fault = dict(fault, at=min(size - 1, int(float(fault["frac"]) * size)))
                ob["at"] = fault["at"]
            self.fs.arm(fault)
        before = self._deep_snapshot()
        snap = _describe(o)
        raised = None
        try:
            if target == "ocf":
                o.save_ocf(path)
            elif target == "meta":
                o.save_metadata(path, fmt=op.get("fmt", "json"))
            elif target == "impacts":
                o.export_impacts(path, fmt=op.get("fmt", "json"))
            else:
                raise seams.HarnessError("unknown save target %r" % target)
        except seams.HarnessError:
            raise
        except Exception as e:  # noqa: BLE001
            raised = type(e).__name__
        self.fs.arm(None)
        ob["raised"] = raised
        self.S.probes["_last_size"] = len(self.fs.files.get(path, b""))
        self._compare_unchanged(i, before, "%s/%s" % (target, fault["kind"]))
        if inserted:
            if inserted[0] == "metadata":
                o.metadata.pop(inserted[1], None)
            else:
                o._state.pop(inserted[1], None)
        if raised is None:
            # the save reported success, so what it wrote must load back (else the failure was swallowed)
            self.S.probe("faulty_save_returned_normally")
            self._verify_written(i, op, target, path, snap, "after a fault that did not make the call raise")
        else:
            self.S.probe("faulty_save_raised")
            # ... and a subsequent fault-free save must round-trip
            try:
                if target == "ocf":
                    o.save_ocf(path)
                elif target == "meta":
                    o.save_metadata(path, fmt=op.get("fmt", "json"))
                else:
                    o.export_impacts(path, fmt=op.get("fmt", "json"))
            except seams.HarnessError:
                raise
            except Exception as e:  # noqa: BLE001
                self.v("save_after_failed_save_raises:" + type(e).__name__, i, target=target, msg=str(e)[:200])
                return
            self._verify_written(i, op, target, path, _describe(o), "after a failed save was retried")

    def _verify_written(self, i, op, target, path, snap, when):
        from inference.preocf import PreOCF, RandomMinCRepPreOCF

        n0 = len(self.viol)
        if target == "ocf":
            self._load_and_compare(i, op, path, "inproc", snap)
        elif target == "meta":
            tgt = PreOCF.init_custom({}, None, self.sig)
            try:
                tgt.load_metadata(path)
                want = self._saved_meta_view(self.obj.metadata, path, op.get("fmt", "json"))
                if tgt.metadata != want:
                    self.v("metadata_roundtrip", i, when=when, got=str(tgt.metadata)[:300], want=str(want)[:300])
            except seams.HarnessError:
                raise
            except Exception as e:  # noqa: BLE001
                self.v("metadata_load_failed:" + type(e).__name__, i, when=when, path=path, fmt=op.get("fmt", "json"), msg=str(e)[:200])
        else:
            try:
                tgt = RandomMinCRepPreOCF.init_with_impacts(self.bb, path)
                if tgt.save_impacts() != self.obj.save_impacts():
                    self.v("impacts_roundtrip", i, when=when, got=tgt.save_impacts(), want=self.obj.save_impacts())
            except seams.HarnessError:
                raise
            except Exception as e:  # noqa: BLE001
                self.v("impacts_load_failed:" + type(e).__name__, i, when=when, path=path, fmt=op.get("fmt", "json"), msg=str(e)[:200])
        for v in self.viol[n0:]:
            v["detail"]["when"] = when

    @staticmethod
    def _saved_meta_view(meta, path, fmt):
        suffix = os.path.splitext(path)[1].lower()
        as_json = suffix == ".json" or (suffix not in (".pkl", ".pickle") and fmt == "json")
        return _jsonable(meta) if as_json else copy.deepcopy(meta)

    def op_meta_rt(self, i, op, ob):
        from inference.preocf import PreOCF

        o = self.obj
        path, fmt = op["path"], op.get("fmt", "json")
        g = stream(self.doc["seed"], "meta", i)
        saved = self._saved_meta_view(o.metadata, path, fmt)
        o.save_metadata(path, fmt=fmt)
        if op.get("into", "fresh") == "fresh":
            tgt = PreOCF.init_custom({}, None, self.sig)
            try:
                tgt.load_metadata(path)
            except seams.HarnessError:
                raise
            except Exception as e:  # noqa: BLE001
                self.v("metadata_load_failed:" + type(e).__name__, i, path=path, fmt=fmt, msg=str(e)[:200])
                return
            if tgt.metadata != saved:
                self.v("metadata_roundtrip", i, path=path, fmt=fmt, got=str(tgt.metadata)[:300], want=str(saved)[:300])
        else:
            # change the in-memory metadata, then restore from the file: saved keys come back equal
            keys = list(o.metadata.keys())
            for k in keys:
                r = g.random()
                v = o.metadata[k]
                if r < 0.3:
                    del o.metadata[k]
                elif isinstance(v, dict):
                    v["__added__%d" % i] = g.randrange(100)
                    if v and r < 0.7:
                        kk = next(iter(v))
                        v[kk] = "changed"
                elif isinstance(v, list):
                    v.append("added")
                else:
                    o.metadata[k] = "changed"
            o.metadata["__extra__%d" % i] = i
            try:
                o.load_metadata(path)
            except seams.HarnessError:
                raise
            except Exception as e:  # noqa: BLE001
                self.v("metadata_load_failed:" + type(e).__name__, i, path=path, fmt=fmt, msg=str(e)[:200])
                return
            bad = [k for k in saved if o.metadata.get(k, "absent") != saved[k]]
            if bad:
                self.v("metadata_roundtrip", i, path=path, fmt=fmt, keys=[str(b) for b in bad][:4], got=str({k: o.metadata.get(k) for k in bad})[:300], want=str({k: saved[k] for k in bad})[:300])
            o.metadata.pop("__extra__%d" % i, None)
        ob["n"] = len(saved)

    def op_impacts_rt(self, i, op, ob):
        from inference.preocf import RandomMinCRepPreOCF

        o = self.obj
        via, path, fmt = op["via"], op.get("path", "imp.json"), op.get("fmt", "json")
        orig = o.save_impacts()
        n = len(orig)
        try:
            if via == "file":
                o.export_impacts(path, fmt=fmt)
                tgt = RandomMinCRepPreOCF.init_with_impacts_list(self.bb, [0] * n)
                tgt.import_impacts(path)
            elif via == "init_file":
                o.export_impacts(path, fmt=fmt)
                tgt = RandomMinCRepPreOCF.init_with_impacts(self.bb, path)
            elif via == "list":
                tgt = RandomMinCRepPreOCF.init_with_impacts_list(self.bb, [0] * n)
                tgt.load_impacts(orig)
            else:
                tgt = RandomMinCRepPreOCF.init_with_impacts_list(self.bb, orig)
        except seams.HarnessError:
            raise
        except Exception as e:  # noqa: BLE001
            self.v("impacts_load_failed:" + type(e).__name__, i, via=via, path=path, fmt=fmt, msg=str(e)[:200])
            return
        if o.save_impacts() != orig:
            self.v("export_changed_impacts", i, got=o.save_impacts(), want=orig)
        if tgt.save_impacts() != orig:
            self.v("impacts_roundtrip", i, via=via, got=tgt.save_impacts(), want=orig)
        ws, _ = self._sample_questions(op)
        got = {w: tgt.rank_world(w) for w in ws}
        want = {w: o.rank_world(w) for w in ws}
        if got != want:
            self.v("impacts_roundtrip_ranks", i, via=via, got=got, want=want)
        ob["impacts"] = orig

    def op_new_impacts(self, i, op, ob):
        from inference.preocf import RandomMinCRepPreOCF

        self.obj = RandomMinCRepPreOCF.init_with_impacts_list(self.bb, list(op["impacts"]), metadata=copy.deepcopy(self.spec.get("metadata")))
        ob["impacts"] = list(op["impacts"])

    # -- final obligations of C16 --------------------------------------------------------------
    def final_c16(self):
        for n, sl in enumerate(self.slots):
            if sl["created"]:
                self.cur = n
                self._final_c16_one()
        self.cur = 0

    def _final_c16_one(self):
        from inference.consistency_diagnostics import augment_belief_base_with_facts
        from inference.inference_manager import InferenceManager
        from inference.queries import Queries

        S = self.S
        i = len(self.doc["ops"])
        S.begin_op(i)
        ref = self.ref
        o = self.obj
        # every base conditional outside the infinity layer is accepted
        inf = set(ref.infinity_layer())
        own = o.conditionals if getattr(o, "conditionals", None) else self.bb.conditionals
        if list(own.keys()) != list(self.bb.conditionals.keys()):
            own = self.bb.conditionals
        # (the object's OWN conditional objects: after a reload they are the unpickled ones)
        for n, (key, c) in enumerate(own.items()):
            if n in inf:
                continue
            try:
                if not o.conditional_acceptance(c):
                    self.v("base_conditional_rejected", i, cond=str(c), key=key)
            except seams.HarnessError:
                raise
            except Exception as e:  # noqa: BLE001
                self.v("exception:" + type(e).__name__, i, opkind="final_accept", msg=str(e)[:200])
        # acceptance equals the System Z operator (and the reference) when the antecedent is feasible
        facts = self.spec.get("facts") or None
        bb_op = augment_belief_base_with_facts(self.bb, list(facts)) if facts else self.bb
        conds, asts = {}, {}
        for n, qt in enumerate(self.doc.get("queries") or [], start=1):
            q = self._cond(qt)
            qa = (EF.from_pysmt(q.consequence), EF.from_pysmt(q.antecedence))
            if ref.antecedent_feasible(qa):
                conds[n] = q
                asts[n] = (qt, qa)
        S.probe("acceptance_queries_compared", len(conds))
        if conds:
            try:
                m = InferenceManager(bb_op, "system-z", weakly=ref.extended)
                df = m.inference(Queries(dict(conds)))
                opans = {int(df.iloc[r]["index"]): bool(df.iloc[r]["result"]) for r in range(len(df))}
            except seams.HarnessError:
                raise
            except Exception as e:  # noqa: BLE001
                opans = None
                S.probe("operator_raised")
                S.trace("operator_exc", type(e).__name__, str(e)[:100])
            for n, q in conds.items():
                try:
                    a = bool(o.conditional_acceptance(q))
                except seams.HarnessError:
                    raise
                except Exception as e:  # noqa: BLE001
                    self.v("exception:" + type(e).__name__, i, opkind="final_accept", msg=str(e)[:200])
                    continue
                qt, qa = asts[n]
                if a != ref.accepts(qa):
                    self.v("acceptance_vs_reference", i, q=qt, got=a, want=ref.accepts(qa))
                if opans is not None and n in opans and a != opans[n]:
                    self.v("acceptance_vs_operator", i, q=qt, object=a, operator=opans[n])
        # finally the complete table
        try:
            t = dict(o.compute_all_ranks())
            bad = {w: [t.get(w), ref.rank(w)] for w in ref.table if t.get(w) != ref.rank(w)}
            if bad:
                self.v("all_ranks_mismatch", i, diff=dict(list(bad.items())[:4]))
            if ref.extended:
                wrong_top = [w for w in ref.table if (t.get(w) == ref.top) != (not ref.feasible(w))]
                if wrong_top:
                    self.v("top_rank_not_exactly_infeasible", i, worlds=wrong_top[:4])
        except seams.HarnessError:
            raise
        except Exception as e:  # noqa: BLE001
            self.v("exception:" + type(e).__name__, i, opkind="final_all", msg=str(e)[:200])
        self.check_table(i)

    def run(self):
        if not self.create():
            return
        for i, op in enumerate(self.doc["ops"]):
            self.do_op(i, op)
        if self.prop == "C16":
            self.final_c16()
        elif self.prop == "C20":
            # final complete comparison through one more (fault-free) round trip
            i = len(self.doc["ops"])
            self.S.begin_op(i)
            fin = self.doc.get("final") or {"where": "inproc"}
            ob = {"op": i, "kind": "final"}
            try:
                self.op_saveload(i, {"path": "final.pkl", "where": fin.get("where", "inproc"), "full": True, "nworlds": 3, "nqueries": 3, "sseed": 999}, ob)
            except seams.HarnessError:
                raise
            except Exception as e:  # noqa: BLE001
                self.v("exception:" + type(e).__name__, i, opkind="final_saveload", msg=str(e)[:300], tb=traceback.format_exc()[-900:])
            self.obs.append(ob)


def _is_plain(v):
    try:
        json.dumps(v)
        return True
    except Exception:  # noqa: BLE001
        return False


# ======================================================================================
# scenario execution
# ======================================================================================
def _needs_helper(doc):
    if (doc.get("final") or {}).get("where") == "restart":
        return True
    return any(op.get("where") == "restart" for op in doc["ops"])


def plan_interrupts(doc, counts, rng):
    plan = doc.get("fault_plan") or {}
    out = []
    cand = [(o, c) for (o, w, site), c in sorted(counts.items()) if site == "z3.check" and o >= 0 and o < len(doc["ops"]) and c > 0 and doc["ops"][o]["op"] != "rebuild"]
    for _ in range(int(plan.get("n", 0))):
        if not cand:
            break
        o, c = rng.choice(cand)
        out.append({"op": o, "site": "z3.check", "k": rng.randrange(c), "kind": "interrupt"})
    seen, res = set(), []
    for f in out:
        if (f["op"], f["k"]) not in seen:
            seen.add((f["op"], f["k"]))
            res.append(f)
    return res


def run_scenario(doc, full_trace=False):
    prop = doc["property"]
    helper = RestartHelper() if _needs_helper(doc) else None
    try:
        S = seams.Sim(doc["seed"], doc.get("knobs"))
        S.hash_rng = stream(doc["seed"], "hash")
        seams.SIM = S
        S.active = True
        if full_trace:
            S.full_trace = []
        faults = doc.get("faults")
        twin = None
        need_twin = prop == "C20" or (faults is None and (doc.get("fault_plan") or {}).get("n"))
        if need_twin:
            twin = Run(doc, S, "twin", [], helper, skip_faulty=True)
            twin.run()
            if faults is None:
                faults = plan_interrupts(doc, S.counts, stream(doc["seed"], "faults"))
        if faults is None:
            faults = []
        doc = dict(doc, faults=faults)
        S.fired = {}
        run = Run(doc, S, "run", faults, helper, skip_faulty=False, sizes=(twin.sizes if twin is not None else None))
        run.run()
        violations = list(run.viol)
        if prop == "C20" and twin is not None:
            # a failed save must leave the object behaving as on an undisturbed copy
            same_object = True
            if twin.obj is not None and run.obj is not None and doc["obj"]["kind"] == "crep":
                # init_random_min_c_rep may return any Pareto-minimal vector: the two phases are only
                # comparable when they happened to get the same one
                t_imp = [o.get("impacts") for o in twin.obs if "impacts" in o]
                same_object = getattr(twin, "first_impacts", None) == getattr(run, "first_impacts", None)
                if not same_object:
                    S.probe("crep_twin_got_other_pareto_vector")
            for a, b in zip(twin.obs, run.obs):
                if not same_object:
                    break
                if a.get("kind") != b.get("kind") or a.get("kind") == "savefail":
                    continue
                ka = {k: v for k, v in a.items() if k not in ("size",)}
                kb = {k: v for k, v in b.items() if k not in ("size",)}
                if ka != kb:
                    violations.append(_viol("C20:behaviour_differs_from_undisturbed_copy", a.get("op"), twin=str(ka)[:300], run=str(kb)[:300]))
                    break
            # violations of the twin (no faults at all) are ordinary round-trip bugs
            for v in twin.viol:
                if v["class"] not in [x["class"] for x in violations]:
                    violations.append(dict(v, detail=dict(v["detail"], phase="twin")))
        fs_stats = dict(run.fs.stats)
        cached = sum(1 for r in run.obj.ranks.values() if r is not None) if run.obj is not None else 0
        kinds = [op["op"] for op in doc["ops"]]
        skeys = set()
        if run.created:
            total = max(1, len(run.obj.ranks))
            part = len(run.ref.partition) if (run.ref is not None and run.ref.consistent) else 0
            for i, ob in enumerate(run.obs):
                skeys.add("%s|%s|%s|%s" % (run.kind, part, ob.get("kind"), ob.get("cached", "")))
            for op in doc["ops"]:
                if op["op"] == "savefail":
                    f = op["fault"]
                    bucket = str(int(float(f["frac"]) * 10)) if "frac" in f else ("" if "at" not in f else str(min(9, int(f["at"]) * 10 // max(1, int(op.get("size_hint", 1000))))))
                    skeys.add("savefail|%s|%s|%s|%s|%s" % (run.kind, op["target"], f["kind"], f.get("errno", f.get("what")), bucket))
        res = {
            "violations": violations,
            "digest": S.digest(),
            "addr_digest": S.addr_digest(),
            "events": S.n_events,
            "vtime": round(S.now, 6),
            "fired": dict(S.fired),
            "probes": dict(S.probes, **{"fs_" + k: v for k, v in fs_stats.items() if v}),
            "doc": doc,
            "tail": S.tail[-25:] if violations else [],
            "nontrivial": bool(run.created and len(run.obs) >= 2) or bool(run.refused and prop == "C16" and doc["obj"].get("facts")),
            "state_keys": sorted(skeys),
            "created": run.created,
            "refused": run.refused,
            "cached_at_end": cached,
            "op_kinds": kinds,
        }
        if full_trace:
            res["trace"] = S.full_trace
        return res
    finally:
        simfs.deactivate()
        if helper is not None:
            helper.close()


def job_execute(doc):
    return run_scenario(doc)


def job_trace(doc):
    return run_scenario(doc, full_trace=True)


def job_sweep(doc):
    """Thorough C20: every failure point of one save of one object: each byte offset of the
    serialised form x error kinds, open errors, close errors."""
    sw = doc["sweep"]
    i = sw["op"]
    # learn the size of the serialised form by a fault-free run of the same save
    probe = copy.deepcopy({k: v for k, v in doc.items() if k != "sweep"})
    probe["ops"][i]["fault"] = {"kind": "write", "errno": "ENOSPC", "at": 10**9}
    r, w = os.pipe()
    pid = os.fork()
    if pid == 0:
        try:
            os.close(r)
            try:
                res = run_scenario(probe)
                size = 0
                # the file written by the swept op
                size = res["probes"].get("_last_size", 0)
            except BaseException:  # noqa: BLE001
                size = -1
            os.write(w, str(size).encode())
        finally:
            os._exit(0)
    os.close(w)
    data = os.read(r, 64)
    os.close(r)
    os.waitpid(pid, 0)
    size = int(data.decode() or 0)
    if size <= 0:
        size = int(sw.get("size_guess", 600))
    positions = []
    for e in ("EACCES", "ENOENT", "EISDIR", "EROFS"):
        positions.append({"kind": "open", "errno": e})
    for e in ("ENOSPC", "EIO"):
        positions.append({"kind": "close", "errno": e})
    step = max(1, size // int(sw.get("max_offsets", 150)))
    errs = ["ENOSPC", "EIO", "EDQUOT"]
    for n, at in enumerate(range(0, size, step)):
        positions.append({"kind": "write", "errno": errs[n % 3], "at": at})
    results = []
    for f in positions:
        d = copy.deepcopy({k: v for k, v in doc.items() if k != "sweep"})
        d["ops"][i]["fault"] = f
        d["ops"][i]["size_hint"] = size
        d["class"] = "sweep"
        r, w = os.pipe()
        pid = os.fork()
        if pid == 0:
            try:
                os.close(r)
                try:
                    res = run_scenario(d)
                except BaseException as e:  # noqa: BLE001
                    res = {"harness_error": "%s: %s" % (type(e).__name__, e), "tb": traceback.format_exc()[-1500:]}
                slim = {k: res.get(k) for k in ("violations", "digest", "vtime", "fired", "nontrivial", "state_keys", "harness_error", "probes")}
                blob = pickle.dumps(slim)
                off = 0
                while off < len(blob):
                    off += os.write(w, blob[off : off + 65536])
            finally:
                os._exit(0)
        os.close(w)
        chunks = []
        while True:
            b = os.read(r, 1 << 16)
            if not b:
                break
            chunks.append(b)
        os.close(r)
        os.waitpid(pid, 0)
        try:
            slim = pickle.loads(b"".join(chunks))
        except Exception:  # noqa: BLE001
            slim = {"harness_error": "sweep child died"}
        slim["doc"] = d
        results.append(slim)
    return {"sweep_results": results, "positions": len(positions), "size": size}


# ======================================================================================
# parent side: generation and driver interface
# ======================================================================================
PATHS_OCF = ["o.pkl", "dir/o2.pkl", "o3.ocf"]
PATHS_META = ["m.json", "m.pkl", "m.pickle", "m.dat", "M.JSON", "meta"]
PATHS_IMP = ["imp.json", "imp.pkl", "imp.dat", "impacts"]


def _gen_metadata(g, depth=2):
    def val(d):
        r = g.random()
        if d <= 0 or r < 0.5:
            return g.choice([g.randrange(-5, 1000), g.choice(["x", "", "birds", "é", "∞ rank", "\ud800 lone surrogate"]), round(g.uniform(-3, 3), 3), True, False, None, 2**40])
        if r < 0.75:
            return [val(d - 1) for _ in range(g.randrange(0, 3))]
        return {g.choice(["k", "n", "cfg", "retries", "a b"]) + str(j): val(d - 1) for j in range(g.randrange(0, 3))}

    return {g.choice(["run", "config", "note", "tags", "id"]) + str(j): val(depth) for j in range(g.randrange(0, 4))}


def _gen_fact(g, sig):
    from sim.gen import workload as W

    r = g.random()
    if r < 0.6:
        return EF.render(W.gen_literal(g, sig))
    return EF.render(W.gen_formula(g, sig, 1, p_const=0.0))


def _gen_rank_ops(g, sig, queries, n, weights=None):
    from sim.gen import workload as W

    nw = 2 ** len(sig)
    ops = []
    kinds = ["rank", "rank_force", "all", "frank", "accept", "cond", "existing", "read", "crev"]
    w = weights or [40, 10, 4, 8, 12, 5, 5, 6, 5]
    for _ in range(n):
        k = g.choices(kinds, weights=w)[0]
        wd = format(g.randrange(nw), "0%db" % len(sig))
        if k == "rank":
            ops.append({"op": "rank", "w": wd})
        elif k == "rank_force":
            ops.append({"op": "rank", "w": wd, "force": g.random() < 0.8})
        elif k == "all":
            ops.append({"op": "all"})
        elif k == "frank":
            ops.append({"op": "frank", "f": EF.render(W.gen_formula(g, sig, 1))})
        elif k == "accept":
            ops.append({"op": "accept", "q": g.choice(queries)})
        elif k == "cond":
            ops.append({"op": "cond", "f": EF.render(W.gen_formula(g, sig, 1))})
        elif k == "existing":
            ops.append({"op": "existing", "f": EF.render(W.gen_formula(g, sig, 1))})
        elif k == "read":
            ops.append({"op": "read"})
        else:
            ops.append({"op": "crev", "conds": [W.cond_text(W.gen_conditional(g, sig, g.choice(["literal", "mixed"]))) for _ in range(g.randint(1, 2))]})
    return ops


def generate(prop, verif_seed, idx, tier="quick", cls=None):
    from sim.gen import workload as W

    sseed = derive(verif_seed, prop, idx)
    g = stream(sseed, "gen")
    knobs = {"bufsize": g.choice([0, 16, 512, 8192, 8192])}
    if g.random() < 0.1:
        knobs["loglevel"] = "INFO"
    if prop == "C16":
        if cls is None:
            cls = g.choices(["plain", "extended", "facts", "interrupt", "persist"], weights=[28, 20, 27, 15, 10])[0]
        obj = {"kind": "system-z", "extended": None, "facts": None}
        want = "consistent"
        variant = cls
        if cls in ("interrupt", "persist"):
            variant = g.choice(["plain", "extended", "facts"])
        if variant == "plain":
            obj["extended"] = g.choice([None, False])
        elif variant == "extended":
            obj["extended"] = True
            want = g.choice(["weakly", "weakly", "consistent"])
        else:
            obj["extended"] = g.choice([None, None, True, False])
            want = "consistent" if obj["extended"] is False else g.choice(["consistent", "consistent", "weakly"])
        if g.random() < 0.25 and want == "consistent" and W.shipped_bases():
            src, sig, text = g.choice(W.shipped_bases())
            conds = None
            if len(sig) > 5:
                sig, conds = W.gen_base(g, want=want, max_atoms=4, max_conds=6)
                text, src = W.base_text(sig, conds), "gen"
        else:
            sig, conds = W.gen_base(g, want=want, max_atoms=g.choice([2, 3, 4, 5]), max_conds=g.choice([3, 5, 7]))
            text, src = W.base_text(sig, conds), "gen"
        if variant == "facts":
            obj["facts"] = [_gen_fact(g, sig) for _ in range(g.choice([1, 1, 2]))]
            obj["facts_as_nodes"] = g.random() < 0.4
        queries = []
        for _ in range(g.randint(3, 6)):
            t = W.cond_text(W.gen_query(g, sig, conds))
            if t not in queries:
                queries.append(t)
        deep = []
        if len(sig) >= 2 and g.random() < 0.15:
            deep = [W.cond_text(c) for c in W.gen_deep_pair(g, sig)]
            queries.extend(t for t in deep if t not in queries)
        ops = _gen_rank_ops(g, sig, queries, g.randint(3, 18))
        for t in deep:
            # both members of the pair are asked of the same object, as acceptance and as formula ranks
            ops.insert(g.randrange(len(ops) + 1), {"op": "accept", "q": t})
            b, a = t[1:-1].rsplit("|", 1)
            ops.insert(g.randrange(len(ops) + 1), {"op": "frank", "f": "%s,(%s)" % (a, b)})
        base_extra = {}
        if src == "gen" and conds and g.random() < 0.15:
            # non-contiguous keys: one more conditional is parsed and then deleted programmatically
            pos = g.randrange(len(conds) + 1)
            extra_c = W.gen_conditional(g, sig, g.choice(["literal", "mixed"]))
            text = W.base_text(sig, conds[:pos] + [extra_c] + conds[pos:])
            base_extra = {"drop_keys": [pos + 1]}
        if src == "gen" and conds and g.random() < 0.15:
            # later the user replaces one conditional of the same base object and rebuilds the object
            j = g.randrange(len(conds))
            for _ in range(20):
                newc = W.gen_conditional(g, sig, g.choice(["literal", "mixed"]))
                trial = conds[:j] + [newc] + conds[j + 1 :]
                from sim.models.refz import tolerance_partition as _tp

                ok = _tp(sig, trial, False) is not None if want == "consistent" else _tp(sig, trial, True) is not None
                if ok and newc != conds[j]:
                    keys_now = [k for k in range(1, len(conds) + 2) if k not in (base_extra.get("drop_keys") or [])] if base_extra else list(range(1, len(conds) + 1))
                    ops.insert(g.randrange(1, len(ops) + 1), {"op": "rebuild", "key": keys_now[j], "cond": W.cond_text(newc)})
                    break
        if cls == "persist":
            for _ in range(g.randint(1, 3)):
                pos = g.randrange(len(ops) + 1)
                ops.insert(pos, {"op": "saveload", "path": g.choice(PATHS_OCF), "where": g.choice(["inproc", "inproc", "restart"]), "adopt": g.random() < 0.7, "sseed": g.randrange(1000), "nworlds": g.randint(0, 3), "nqueries": g.randint(0, 1)})
        doc = {"property": prop, "seed": sseed, "idx": idx, "class": cls, "knobs": knobs, "base": dict({"text": text, "src": src}, **base_extra), "obj": obj, "queries": queries, "ops": ops}
        if src == "gen" and g.random() < 0.3:
            # a second ranking object over the same signature (another base / mode / facts), used alternately
            ext2 = g.choice([None, False, True])
            want2 = g.choice(["weakly", "consistent"]) if ext2 else "consistent"
            sig2, conds2 = W.gen_base(g, want=want2, max_conds=g.choice([3, 5]), exact_atoms=len(sig))
            obj2 = {"kind": "system-z", "extended": ext2, "facts": None, "base": W.base_text(sig2, conds2, name="kb2")}
            if ext2 is not False and g.random() < 0.3:
                obj2["facts"] = [_gen_fact(g, sig2)]
            if g.random() < 0.35 and not base_extra and not any(op["op"] == "rebuild" for op in ops):
                # (never together with 'rebuild': editing the base underneath a live object is outside the statement)
                # ... or a second object over the very same BeliefBase object (same Conditional objects)
                # in another mode / with facts; a standard-mode twin needs a consistent base
                obj2 = {"kind": "system-z", "same_base": True, "facts": None, "extended": (True if want != "consistent" else g.choice([None, True, True]))}
                if g.random() < 0.6:
                    obj2["facts"] = [_gen_fact(g, sig)]
                    obj2["extended"] = g.choice([None, True])
            doc["obj2"] = obj2
            for op in ops:
                if op["op"] not in ("saveload", "rebuild") and g.random() < 0.45:
                    op["on"] = 1
        if cls == "interrupt":
            doc["fault_plan"] = {"n": g.choice([1, 2, 3])}
        else:
            doc["faults"] = []
        return doc
    # ---- C20 -------------------------------------------------------------------------------
    if cls is None:
        cls = g.choices(["roundtrip", "failsave", "meta", "impacts"], weights=[30, 36, 17, 17])[0]
    kind = g.choices(["system-z", "crep", "custom"], weights=[50, 30, 20])[0]
    if cls == "impacts":
        kind = "crep"
    obj = {"kind": kind, "metadata": _gen_metadata(g) if g.random() < 0.8 else None}
    want = "consistent"
    use_facts = False
    if kind == "system-z":
        v = g.choice(["plain", "extended", "facts"])
        obj["extended"] = {"plain": g.choice([None, False]), "extended": True, "facts": g.choice([None, True])}[v]
        use_facts = v == "facts"
        if v != "plain":
            # extended semantics (explicit, or inferred from facts): weakly consistent bases are in the domain
            want = g.choice(["consistent", "weakly"])
    if want == "consistent" and kind in ("crep", "system-z") and g.random() < 0.08:
        # ten or more conditionals (two-digit keys)
        sig, conds = W.gen_large_base(g, n_atoms=g.choice([4, 5]))
        text, src = W.base_text(sig, conds), "gen-large"
    elif g.random() < 0.25 and want == "consistent" and W.shipped_bases():
        src, sig, text = g.choice([b for b in W.shipped_bases() if len(b[1]) <= 4] or W.shipped_bases())
        conds = None
    else:
        sig, conds = W.gen_base(g, want=want, max_atoms=g.choice([2, 3, 4]), max_conds=g.choice([2, 4, 6]))
        text, src = W.base_text(sig, conds), "gen"
    if use_facts:
        obj["facts"] = [_gen_fact(g, sig)]
    sparse = False
    if kind == "custom":
        nw = 2 ** len(sig)
        obj["ranks"] = {format(i, "0%db" % len(sig)): g.randrange(0, 5) for i in range(nw)}
        obj["with_bb"] = g.random() < 0.5
        if g.random() < 0.3 and nw >= 4:
            # a partially specified custom ranking: some worlds are simply absent from the table
            for w in g.sample(sorted(obj["ranks"]), g.randint(1, nw // 2)):
                del obj["ranks"][w]
            sparse = True
    queries = []
    for _ in range(g.randint(2, 5)):
        t = W.cond_text(W.gen_query(g, sig, conds))
        if t not in queries:
            queries.append(t)
    ops = _gen_rank_ops(g, sig, queries, g.randint(0, 6), weights=[50, 8, 6, 5, 15, 4, 0, 6, 0])
    if sparse:
        # only worlds that the table knows can be asked for; formula ranks / acceptance would (rightly) refuse
        present = sorted(obj["ranks"])
        ops = [dict(op, w=g.choice(present)) if op["op"] == "rank" else op for op in ops if op["op"] in ("rank", "read", "all")]
        queries = []

    def sl():
        return {"op": "saveload", "path": g.choice(PATHS_OCF), "where": g.choice(["inproc", "inproc", "restart"]), "adopt": g.random() < 0.5, "sseed": g.randrange(1000), "nworlds": g.randint(0, 4), "nqueries": g.randint(0, 2)}

    def fsfault():
        k = g.choice(["open", "write", "write", "write", "close"])
        if k == "open":
            return {"kind": "open", "errno": g.choice(["EACCES", "ENOENT", "EISDIR", "EROFS"])}
        if k == "close":
            return {"kind": "close", "errno": g.choice(["ENOSPC", "EIO"])}
        r = g.random()
        if r < 0.7:
            # a fraction of the serialised form (its size is measured by the twin run)
            return {"kind": "write", "errno": g.choice(["ENOSPC", "EIO", "EDQUOT"]), "frac": g.choice([0.0, 0.0, round(g.random(), 3), round(g.random(), 3), 0.999])}
        at = g.choice([0, 1, 7, 16, 17, 64, 200, 500, 513, 1000, 3000]) if r < 0.85 else g.randrange(0, 4000)
        return {"kind": "write", "errno": g.choice(["ENOSPC", "EIO", "EDQUOT"]), "at": at}

    def sf():
        targets = ["ocf", "ocf", "meta"] + (["impacts"] if kind == "crep" else [])
        t = g.choice(targets)
        op = {"op": "savefail", "target": t, "sseed": g.randrange(1000), "nworlds": g.randint(0, 3), "nqueries": g.randint(0, 1)}
        if t == "ocf":
            op["path"] = g.choice(PATHS_OCF)
            op["fault"] = {"kind": "unserialisable", "what": g.choice(["lambda_meta", "lambda_state"])} if g.random() < 0.3 else fsfault()
        elif t == "meta":
            op["path"] = g.choice(["m.json", "m.pkl", "m.pickle"])
            op["fmt"] = "json" if op["path"].endswith(".json") else "pickle"
            if g.random() < 0.3:
                op["fault"] = {"kind": "unserialisable", "what": g.choice(["tuple_key", "cycle"]) if op["fmt"] == "json" else "lambda_meta"}
            else:
                op["fault"] = fsfault()
        else:
            op["path"] = g.choice(["imp.json", "imp.pkl"])
            op["fmt"] = "json" if op["path"].endswith(".json") else "pickle"
            op["fault"] = fsfault()
        return op

    def mrt():
        path = g.choice(PATHS_META)
        return {"op": "meta_rt", "path": path, "fmt": g.choice(["json", "json", "pickle"]), "into": g.choice(["fresh", "same"])}

    def irt():
        path = g.choice(PATHS_IMP)
        return {"op": "impacts_rt", "via": g.choice(["file", "init_file", "list", "init_list"]), "path": path, "fmt": g.choice(["json", "json", "pickle"]), "sseed": g.randrange(1000), "nworlds": g.randint(1, 4)}

    n_p = g.randint(1, 4)
    for _ in range(n_p):
        if g.random() < 0.12 and any(o["op"] == "saveload" for o in ops):
            # between two saves to one path: someone else overwrites the file, or (custom ranking) the
            # user revises a value; the next save must really write
            prev = [o for o in ops if o["op"] == "saveload"][-1]
            if kind == "custom" and g.random() < 0.5:
                ops.append({"op": "edit_rank", "w": g.choice(sorted(obj["ranks"])), "v": g.randrange(0, 6)})
            else:
                ops.append({"op": "clobber", "path": prev["path"]})
            ops.append(dict(sl(), path=prev["path"], adopt=False))
            continue
        if cls == "roundtrip":
            ops.append(sl())
        elif cls == "failsave":
            ops.append(sf() if g.random() < 0.8 else sl())
        elif cls == "meta":
            ops.append(mrt() if g.random() < 0.8 else sl())
        else:
            r = g.random()
            if r < 0.65:
                ops.append(irt())
            elif r < 0.85:
                nconds = text.count("|")  # number of conditionals in the base text
                ops.append({"op": "new_impacts", "impacts": [g.randrange(0, 4) for _ in range(nconds)]})
            else:
                ops.append(sl())
        if g.random() < 0.4 and not sparse:
            ops.extend(_gen_rank_ops(g, sig, queries, g.randint(1, 2), weights=[60, 8, 4, 4, 14, 4, 0, 6, 0]))
    final = {"where": g.choice(["inproc", "restart"])}
    if tier == "thorough" and g.random() < 0.04:
        final = {"where": "exec"}
    warm = None
    if g.random() < 0.4:
        # the process that reloads has already worked on another base (same atoms, other order)
        wsig = list(sig)
        g.shuffle(wsig)
        _, wconds = W.gen_base(g, want="consistent", max_conds=3, style="literal", exact_atoms=len(sig))
        ren = dict(zip(W.ATOMS[: len(sig)], wsig))

        def _rn(f):
            return ("var", ren.get(f[1], f[1])) if f[0] == "var" else (f[0],) + tuple(_rn(x) if isinstance(x, tuple) else x for x in f[1:])

        warm = W.base_text(wsig, [(_rn(b), _rn(a)) for b, a in wconds], name="other")
    doc = {"property": prop, "seed": sseed, "idx": idx, "class": cls, "knobs": knobs, "base": {"text": text, "src": src}, "obj": obj, "queries": queries, "ops": ops, "final": final, "faults": []}
    if warm:
        doc["restart_warmup"] = warm
    return doc


def canonical(doc):
    d = {k: doc.get(k) for k in ("property", "knobs", "base", "obj", "obj2", "queries", "ops", "faults", "final", "restart_warmup")}
    return hashlib.sha256(json.dumps(d, sort_keys=True).encode()).hexdigest()


_COMPONENTS = {
    "real": [
        "inference/preocf.py, consistency_sat.py, consistency_diagnostics.py, system_z.py, c_revision.py, parser/* (current working tree of /repo)",
        "z3, pysmt, pysat, pickle, json: called for real",
        "restart = a real fork of the pristine zygote state taken before the scenario created any object (fresh formula manager, no caches); a sample of thorough scenarios really exec()s a new interpreter and goes through the real file system",
    ],
    "stub": [
        "pathlib as seen by inference.preocf -> SimFS: in-memory files, buffered writer with per-scenario buffer size {0,16,512,8192}, injected open errors (EACCES/ENOENT/EISDIR/EROFS), raw write error at byte k leaving the torn prefix (ENOSPC/EIO/EDQUOT), close/flush error",
        "time.time()/perf_counter -> virtual clock; z3.Solver.check wrapped (counts, injected interruption = Z3Exception('canceled'))",
        "Conditional.__hash__ -> seeded",
    ],
}

SPECS = {
    "C16": {
        "n_quick": 420,
        "n_thorough": 12000,
        "recheck": 8,
        "rule": (
            "scenario = consistent / weakly consistent base (generated through the real parser, or shipped example) + System Z ranking object "
            "(standard / extended / facts) + 3-18 operations in seeded order from {rank_world, forced rank_world, compute_all_ranks, formula_rank, conditional_acceptance, "
            "compute_conditionalization, conditionalize_existing_ranks, c-revision compilation over the object, save/load in process or in a pristine process}, "
            "optionally with solver calls interrupted (Z3Exception 'canceled') at seeded positions measured by a twin run. Oracle after EVERY operation: each cached rank is None or "
            "RefZ's rank (brute-force reference by definition); returned values equal RefZ; at the end: acceptance == real System Z operator == RefZ for feasible antecedents, base "
            "conditionals outside the infinity layer accepted, top rank exactly on infeasible worlds; inconsistent fact combinations refused with RefZ's five diagnostics flags. "
            "Distinct = distinct canonical JSON; non-trivial = object created and at least 2 operations ran, or a facts combination was refused."
        ),
        "state_measure": "distinct (partition length, operation kind, number of cached worlds when read) tuples",
        "must_reach": ["interrupt", "restart_loads", "acceptance_queries_compared"],
        "components": _COMPONENTS,
        "assumptions": [
            "RefZ (own evaluator over the parsed formula trees, brute force over <= 64 worlds, tolerance partition by definition) is the specification of the Z-ranking",
            "only the history dimension (order of lazy/forced/all-at-once computation, interruptions, save/load) is decided by the simulation; bases, facts and queries are sampled workload",
            "an interrupted solver call surfaces as an exception from z3.Solver.check",
        ],
    },
    "C20": {
        "n_quick": 420,
        "n_thorough": 9000,
        "sweeps_quick": 3,
        "sweeps_thorough": 60,
        "recheck": 8,
        "rule": (
            "scenario = ranking object of any kind (System Z std/extended/facts, c-representation, custom) in a partial-computation state reached by 0-6 rank operations + 1-4 "
            "persistence operations {save_ocf/load_ocf in process or in a pristine process (final reload optionally in a really exec'ed interpreter), failing save of the object / "
            "its metadata / its impacts with an injected fault, metadata round trip (json/pickle, suffix- or fmt-selected, into a fresh or a modified object), impact-vector round "
            "trips via file, init_with_impacts, list, init_with_impacts_list} + a final complete round trip; executed twice (undisturbed twin, run under test). "
            "Faults: open error, raw write error at byte k with torn prefix, close error, unserialisable member (lambda in metadata/_state, tuple key, cycle); class sweep = every "
            "byte offset (stride) and every open/close error of one save. Oracle: loaded object equals original (class, signature, impacts, cached ranks, sampled lazy ranks, "
            "acceptance verdicts, full table); failed save leaves ranks/impacts/metadata/_state/solver handles (identity) unchanged and behaviour identical to the twin; a faulty "
            "save that returns normally must have written a loadable file; a retried save round-trips. Distinct = distinct canonical JSON; non-trivial = object created and >= 2 operations."
        ),
        "state_measure": "distinct (object kind, partition length, operation kind, cached-rank count) and (object kind, save target, fault kind, errno/member, position decile) tuples",
        "must_reach": ["faulty_save_raised", "restart_loads", "fs_opens_w", "fs_write_ENOSPC", "fs_close_EIO", "fs_open_EACCES", "unserialisable_lambda_meta"],
        "components": _COMPONENTS,
        "assumptions": [
            "BufferedWriter semantics: an I/O error surfaces at a raw write (buffer overflow) or at flush/close; the torn prefix stays in the file; the content of a torn file is not constrained",
            "a fork of the pristine pre-scenario process state is equivalent to a new interpreter for unpickling (validated on a sample by a real exec through the real file system)",
            "metadata is drawn from the JSON-representable space (string keys, nested lists/dicts of str/int/finite float/bool/None)",
            "kernel-level behaviour (fsync, rename atomicity) is not modelled: the code uses neither",
        ],
    },
}


def jobs(prop, verif_seed, n, tier):
    if prop == "C20":
        ns = int(os.environ.get("VERIF_SWEEPS") or SPECS["C20"]["sweeps_" + tier])
        made, idx = 0, 10**6
        while made < ns and idx < 10**6 + 40 * ns + 40:
            doc = generate("C20", verif_seed, idx, tier, cls="failsave")
            idx += 1
            cand = [i for i, op in enumerate(doc["ops"]) if op["op"] == "savefail" and op["fault"]["kind"] != "unserialisable"]
            if not cand:
                continue
            doc["sweep"] = {"op": cand[0], "max_offsets": 60 if tier == "quick" else 400}
            doc["final"] = {"where": "inproc"}
            yield {"id": "sweep%d" % made, "engine": NAME, "func": "sweep", "doc": doc, "wall_cap": 7200}
            made += 1
    for i in range(n):
        yield {"id": i, "engine": NAME, "func": "execute", "doc": generate(prop, verif_seed, i, tier), "wall_cap": 180}


def sample_view(res):
    d = res["doc"]
    return {"class": d.get("class"), "base": d["base"]["text"], "object": d["obj"], "object2": d.get("obj2"), "queries": d.get("queries"), "ops": d["ops"], "faults": d.get("faults"), "faults_fired": res.get("fired")}


def features(doc, v):
    f = {"class": v["class"], "kind": doc["obj"]["kind"], "extended": doc["obj"].get("extended"), "facts": bool(doc["obj"].get("facts")), "two_objects": bool(doc.get("obj2"))}
    o = v.get("op")
    ops = doc["ops"]
    if o is not None and 0 <= o < len(ops):
        op = ops[o]
        f["opkind"] = op["op"]
        for k in ("target", "fmt", "via", "where", "into"):
            if k in op:
                f[k] = op[k]
        if "path" in op:
            f["suffix"] = os.path.splitext(op["path"])[1]
        if "fault" in op:
            f["fault_kind"] = op["fault"]["kind"]
            f["fault_what"] = op["fault"].get("what") or op["fault"].get("errno")
    f["fault_kinds"] = sorted({x["kind"] for x in doc.get("faults") or []})
    return f


def shrink_candidates(doc):
    from engines.mgrsim import _join_base, _split_base

    doc = {k: v for k, v in doc.items() if k not in ("fault_plan", "sweep")}
    doc.setdefault("faults", [])
    ops = doc["ops"]
    for i in range(len(doc["faults"])):
        yield dict(doc, faults=doc["faults"][:i] + doc["faults"][i + 1 :])
    # drop operations (faults are addressed by operation index)
    for i in range(len(ops)):
        fl = []
        for f in doc["faults"]:
            if f["op"] == i:
                continue
            fl.append(dict(f, op=f["op"] - 1) if f["op"] > i else f)
        yield dict(doc, ops=ops[:i] + ops[i + 1 :], faults=fl)
    # drop the second object when no operation uses it; or move its operations away
    if doc.get("obj2"):
        if not any(op.get("on") == 1 for op in ops):
            yield {k: v for k, v in doc.items() if k != "obj2"}
        else:
            yield dict({k: v for k, v in doc.items() if k != "obj2"}, ops=[op for op in ops if op.get("on") != 1])
    # drop queries / facts / metadata
    qs = doc.get("queries") or []
    used = {op.get("q") for op in ops}
    for j in range(len(qs)):
        if qs[j] not in used and len(qs) > 1:
            yield dict(doc, queries=qs[:j] + qs[j + 1 :])
    facts = doc["obj"].get("facts") or []
    for j in range(len(facts)):
        rest = facts[:j] + facts[j + 1 :]
        yield dict(doc, obj=dict(doc["obj"], facts=rest or None))
    if doc["obj"].get("metadata"):
        md = doc["obj"]["metadata"]
        for k in list(md):
            yield dict(doc, obj=dict(doc["obj"], metadata={a: b for a, b in md.items() if a != k}))
    # drop conditionals from the base
    try:
        head, items, tail = _split_base(doc["base"]["text"])
        if len(items) > 1 and not any(op["op"] == "new_impacts" for op in ops) and doc["obj"].get("impacts") is None:
            for j in range(len(items)):
                yield dict(doc, base=dict(doc["base"], text=_join_base(head, items[:j] + items[j + 1 :], tail)))
    except Exception:  # noqa: BLE001
        pass
    # simplify operations
    for i, op in enumerate(ops):
        if op.get("where") in ("restart", "exec"):
            yield dict(doc, ops=ops[:i] + [dict(op, where="inproc")] + ops[i + 1 :])
        if op.get("adopt"):
            yield dict(doc, ops=ops[:i] + [dict(op, adopt=False)] + ops[i + 1 :])
        for k in ("nworlds", "nqueries"):
            if op.get(k):
                yield dict(doc, ops=ops[:i] + [dict(op, **{k: 0})] + ops[i + 1 :])
        if op["op"] == "crev" and len(op["conds"]) > 1:
            yield dict(doc, ops=ops[:i] + [dict(op, conds=op["conds"][:1])] + ops[i + 1 :])
    if (doc.get("final") or {}).get("where") not in (None, "inproc"):
        yield dict(doc, final={"where": "inproc"})
    if doc.get("restart_warmup"):
        yield {k: v for k, v in doc.items() if k != "restart_warmup"}
    if (doc.get("knobs") or {}).get("bufsize", 8192) != 8192:
        yield dict(doc, knobs=dict(doc["knobs"], bufsize=8192))
