"""revsim: add/remove/query histories on the incremental c-revision model (C19).

The incremental model, the fast and the reference compilation are compared with RefRev after every
step; every c_revision() result is validated by enumeration against the definition
k*(w) = k(w) + sum gamma+ (verified) + sum gamma- (falsified), and 'None' / Pareto-minimality are
decided with a direct world-level encoding handed to a plain z3 solver.
"""
import hashlib
import json
import traceback

from sim import seams
from sim.models import evalformula as EF
from sim.models.refrev import RefRev
from sim.prng import derive, stream

NAME = "revsim"


def _viol(cls, op, **detail):
    return {"class": "C19:" + cls, "op": op, "row": None, "detail": detail}


def _norm(comp):
    return tuple({int(i): sorted((int(t[0]), tuple(sorted(int(x) for x in t[1])), tuple(sorted(int(x) for x in t[2]))) for t in lst) for i, lst in d.items()} for d in comp)


class Run:
    def __init__(self, doc, S):
        self.doc = doc
        self.S = S
        self.sig = list(doc["sig"])
        self.viol = []
        self.priors = []  # (object under test, reference table)
        self.prior_sigs = []
        self.models = []  # (CRevisionModel, prior index, {idx: (cond obj, text)})
        self.n_crev = 0
        self.n_none = 0
        self.n_pareto = 0
        self.state_keys = set()

    def v(self, cls, op, **d):
        self.viol.append(_viol(cls, op, **d))

    def _cond(self, text, idx):
        from parser.Wrappers import parseQuery

        c = list(parseQuery(text).values())[0]
        c.index = int(idx)
        return c

    def _ast(self, c):
        return (EF.from_pysmt(c.consequence), EF.from_pysmt(c.antecedence))

    def make_prior(self, p):
        from inference.preocf import PreOCF, RandomMinCRepPreOCF
        from parser.Wrappers import parse_belief_base

        kind = p["kind"]
        sig = list(p.get("sig") or self.sig)
        self.prior_sigs.append(sig)
        nw = 2 ** len(sig)
        ws = [format(i, "0%db" % len(sig)) for i in range(nw)]
        if kind == "zero":
            ranks = {w: 0 for w in ws}
            return PreOCF.init_custom(dict(ranks), None, list(sig)), ranks
        if kind == "custom":
            # the order of the rank dict is the user's (by plausibility, hand-written, ...): keep it
            order = [w for w in p["ranks"] if w in set(ws)]
            ranks = {w: int(p["ranks"][w]) for w in order}
            return PreOCF.init_custom(dict(ranks), None, list(sig)), ranks
        bb = parse_belief_base(p["base"])
        if list(bb.signature) != sig:
            raise seams.HarnessError("prior base signature differs from the prior's signature")
        if kind == "system-z":
            o = PreOCF.init_system_z(bb, extended=p.get("extended"))
            twin = PreOCF.init_system_z(parse_belief_base(p["base"]), extended=p.get("extended"))
            return o, dict(twin.compute_all_ranks())
        if kind == "crep":
            try:
                o = PreOCF.init_random_min_c_rep(bb)
            except ValueError:
                # construction of the c-representation object is C17's subject: use the all-zero prior
                self.S.probe("crep_prior_unavailable")
                ranks = {w: 0 for w in ws}
                return PreOCF.init_custom(dict(ranks), None, list(sig)), ranks
            twin = RandomMinCRepPreOCF.init_with_impacts_list(parse_belief_base(p["base"]), o.save_impacts())
            return o, dict(twin.compute_all_ranks())
        raise seams.HarnessError("unknown prior kind %r" % kind)

    def ref_for(self, mi):
        model, pi, conds = self.models[mi]
        ref = RefRev(self.prior_sigs[pi], self.priors[pi][1])
        ref.set_conds({idx: self._ast(c) for idx, (c, _) in conds.items()})
        return ref

    def check_compilations(self, i, mi, with_reference_impl):
        from inference.c_revision import compile_alt, compile_alt_fast

        model, pi, conds = self.models[mi]
        prior = self.priors[pi][0]
        ref = self.ref_for(mi)
        want = _norm(ref.compilation())
        lst = [c for c, _ in conds.values()]
        got = _norm(model.to_compilation())
        if got != want:
            self.v("incremental_compilation_mismatch", i, model=mi, diff=_diff(got, want))
        gotf = _norm(compile_alt_fast(prior, lst))
        if gotf != want:
            self.v("fast_compilation_mismatch", i, model=mi, diff=_diff(gotf, want))
        if with_reference_impl:
            gotr = _norm(compile_alt(prior, lst))
            if gotr != want:
                self.v("reference_compilation_mismatch", i, model=mi, diff=_diff(gotr, want))
        shapes = tuple(sorted(t for _, t in conds.values()))
        self.state_keys.add("%s|%d" % (hashlib.sha256(repr(shapes).encode()).hexdigest()[:8], len(conds)))

    def check_csp_equivalence(self, i, mi, gpz, fp, fm):
        """The constraint system emitted by the incremental model must be equivalent to the one
        built from a fresh compilation of its current conditionals (both through the repository's
        own translate_to_csp, so a defect of the encoding itself is present on both sides)."""
        import z3
        from inference.c_revision import _convert_csp_to_z3, compile_alt_fast, translate_to_csp

        model, pi, conds = self.models[mi]
        prior = self.priors[pi][0]
        lst = [c for c, _ in conds.values()]
        a = model.to_csp(gamma_plus_zero=gpz, fixed_gamma_plus=dict(fp) or None, fixed_gamma_minus=dict(fm) or None)
        b = translate_to_csp(compile_alt_fast(prior, lst), gpz, fixed_gamma_plus=dict(fp) or None, fixed_gamma_minus=dict(fm) or None)
        za, zb = _convert_csp_to_z3(list(a)), _convert_csp_to_z3(list(b))
        fa = z3.And(za) if za else z3.BoolVal(True)
        fb = z3.And(zb) if zb else z3.BoolVal(True)
        sol = z3.Solver()
        sol.add(fa != fb)
        self.S.probe("csp_equivalence_checks")
        if seams.REAL["solver_check"](sol) != z3.unsat:
            self.v("incremental_csp_differs_from_fresh", i, model=mi, gpz=gpz, fixed_minus=fm, fixed_plus=fp, conds=[t for _, t in conds.values()])

    def do_crev(self, i, op):
        import z3
        from inference.c_revision import c_revision

        real_check = seams.REAL["solver_check"]
        mi = op["model"]
        model, pi, conds = self.models[mi]
        prior = self.priors[pi][0]
        ref = self.ref_for(mi)
        lst = [c for c, _ in conds.values()]
        gpz = bool(op.get("gpz"))
        fm = {int(k): int(v) for k, v in (op.get("fixed_minus") or {}).items() if int(k) in conds}
        fp = {int(k): int(v) for k, v in (op.get("fixed_plus") or {}).items() if int(k) in conds}
        kw = {}
        if op.get("use_model"):
            kw["model"] = model
        if op.get("use_model"):
            self.check_csp_equivalence(i, mi, gpz, fp, fm)
        res = c_revision(prior, lst, gamma_plus_zero=gpz, fixed_gamma_minus=dict(fm) or None, fixed_gamma_plus=dict(fp) or None, **kw)
        self.n_crev += 1
        self.S.trace("crev", i, json.dumps(res, sort_keys=True) if res is not None else None)
        feasible = ref.feasible(z3, real_check, gpz, fp, fm)
        if res is None:
            self.n_none += 1
            if feasible:
                unfals = [conds[k][1] for k in conds if not any(ref.falsified(k, w) for _, w in ref.worlds)]
                self.v("none_but_feasible", i, model=mi, gpz=gpz, fixed_minus=fm, fixed_plus=fp, conds=[t for _, t in conds.values()], unfalsifiable=unfals, use_model=bool(op.get("use_model")))
            return
        if not isinstance(res, dict):
            self.v("invalid_parameters", i, got=repr(res)[:200])
            return
        gp, gm = {}, {}
        bad = []
        for idx in conds:
            for name, store in (("gamma+_%d" % idx, gp), ("gamma-_%d" % idx, gm)):
                if name in res:
                    val = res[name]
                    if isinstance(val, bool) or not isinstance(val, int) or val < 0:
                        bad.append((name, repr(val)))
                        val = 0
                    store[idx] = val
                else:
                    self.S.probe("parameter_absent_read_as_zero")
                    store[idx] = 0
        if bad:
            self.v("invalid_parameters", i, bad=bad)
            return
        wrong_fixed = [(k, fm[k], gm.get(k)) for k in fm if gm.get(k) != fm[k]] + [(k, fp[k], gp.get(k)) for k in fp if gp.get(k) != fp[k]]
        if gpz:
            wrong_fixed += [(k, 0, gp[k]) for k in gp if k not in fp and gp[k] != 0]
        if wrong_fixed:
            self.v("fixed_not_respected", i, wrong=wrong_fixed, gpz=gpz)
            return
        not_acc = ref.accepts_all(gp, gm)
        if not_acc:
            self.v(
                "not_accepting",
                i,
                model=mi,
                rejected=[conds[k][1] for k in not_acc],
                gamma_plus=gp,
                gamma_minus=gm,
                gpz=gpz,
                fixed_minus=fm,
                fixed_plus=fp,
                use_model=bool(op.get("use_model")),
                feasible=feasible,
            )
            return
        if gpz and all(v == 0 for v in fp.values()):
            self.n_pareto += 1
            dom = ref.dominated(z3, real_check, True, fp, fm, gm)
            if dom is not None:
                self.v("not_pareto_minimal", i, model=mi, returned=gm, dominated_by=dom, fixed_minus=fm)

    def run(self, phase="run", faults=()):
        from inference.c_revision_model import CRevisionModel

        S = self.S
        S.begin_phase(phase, faults)
        S.begin_op(-1)
        for p in self.doc["priors"]:
            self.priors.append(self.make_prior(p))
        for i, op in enumerate(self.doc["ops"]):
            S.begin_op(i)
            k = op["op"]
            fired0 = S.fired.get("interrupt", 0)
            try:
                if k == "new_model":
                    conds = {int(idx): (self._cond(t, idx), t) for idx, t in op["conds"]}
                    m = CRevisionModel(self.priors[op["prior"]][0], [c for c, _ in conds.values()])
                    self.models.append((m, op["prior"], conds))
                    S.trace_addr(id(m) & 0xFFFFFFF, [id(c) & 0xFFFFFFF for c, _ in conds.values()][:3])
                    self.check_compilations(i, len(self.models) - 1, False)
                elif k == "add":
                    m, pi, conds = self.models[op["model"]]
                    c = self._cond(op["cond"], op["idx"])
                    try:
                        m.add_conditional(c)
                    except Exception:  # noqa: BLE001
                        if op.get("rollback") and S.fired.get("interrupt", 0) > fired0:
                            # the add was interrupted; the caller rolls back by removing the index, after
                            # which the model must again equal a fresh compilation of what it held before
                            S.probe("interrupted_add_rolled_back")
                            m.remove_conditional(int(op["idx"]))
                            self.check_compilations(i, op["model"], False)
                            S.trace("step", i, k, len(self.viol))
                            continue
                        raise
                    conds[int(op["idx"])] = (c, op["cond"])
                    if not op.get("quiet"):
                        # (quiet steps are not observed: an observation between two updates is itself
                        # part of the history and can refresh a stale memo)
                        self.check_compilations(i, op["model"], False)
                elif k == "remove":
                    m, pi, conds = self.models[op["model"]]
                    m.remove_conditional(int(op["idx"]))
                    conds.pop(int(op["idx"]), None)
                    if not op.get("quiet"):
                        self.check_compilations(i, op["model"], False)
                elif k == "compile_check":
                    self.check_compilations(i, op["model"], True)
                elif k == "crev":
                    self.do_crev(i, op)
                elif k == "rank_prior":
                    o, table = self.priors[op["prior"]]
                    r = o.rank_world(op["w"])
                    if r != table[op["w"]]:
                        S.probe("prior_rank_differs_from_its_twin")
                else:
                    raise seams.HarnessError("unknown op %r" % k)
            except seams.HarnessError:
                raise
            except Exception as e:  # noqa: BLE001
                if S.fired.get("interrupt", 0) > fired0 and (k in ("crev", "compile_check", "rank_prior") or (k == "add" and op.get("rollback"))):
                    # (for an add with rollback that got here the add itself had completed: the
                    # interruption hit one of the read-only compilations of the oracle)
                    # an injected interruption of a solver call may surface as an exception of a read-only
                    # operation; what follows must be unaffected
                    S.probe("interrupted_ops")
                else:
                    self.v("exception:" + type(e).__name__, i, opkind=k, msg=str(e)[:300], tb=traceback.format_exc()[-900:])
            S.trace("step", i, k, len(self.viol))
        # final: every model equals a fresh compilation of its current conditionals
        i = len(self.doc["ops"])
        S.begin_op(i)
        for mi in range(len(self.models)):
            try:
                self.check_compilations(i, mi, True)
            except seams.HarnessError:
                raise
            except Exception as e:  # noqa: BLE001
                self.v("exception:" + type(e).__name__, i, opkind="final_compile", msg=str(e)[:300], tb=traceback.format_exc()[-900:])


def _diff(got, want):
    out = {}
    for side, (g, w) in zip(("vMin", "fMin"), zip(got, want)):
        for idx in sorted(set(g) | set(w)):
            if g.get(idx) != w.get(idx):
                out["%s[%s]" % (side, idx)] = {"got": str(g.get(idx))[:200], "want": str(w.get(idx))[:200]}
                if len(out) >= 2:
                    return out
    return out


def run_scenario(doc, full_trace=False):
    S = seams.Sim(doc["seed"], doc.get("knobs"))
    S.hash_rng = stream(doc["seed"], "hash")
    seams.SIM = S
    S.active = True
    if full_trace:
        S.full_trace = []
    faults = doc.get("faults")
    if faults is None:
        faults = []
        n = int((doc.get("fault_plan") or {}).get("n", 0))
        if n:
            tw = Run(doc, S)
            tw.run("twin", [])
            rng = stream(doc["seed"], "faults")
            cand = [(o, c) for (o, w, site), c in sorted(S.counts.items()) if site == "z3.check" and 0 <= o < len(doc["ops"]) and c > 0 and (doc["ops"][o]["op"] in ("crev", "compile_check", "rank_prior") or (doc["ops"][o]["op"] == "add" and doc["ops"][o].get("rollback")))]
            seen = set()
            for _ in range(n):
                if not cand:
                    break
                o, c = rng.choice(cand)
                k = rng.randrange(c)
                if (o, k) not in seen:
                    seen.add((o, k))
                    faults.append({"op": o, "site": "z3.check", "k": k, "kind": "interrupt"})
        doc = dict(doc, faults=faults)
        S.fired = {}
    run = Run(doc, S)
    run.run("run", faults)
    n_mut = sum(1 for op in doc["ops"] if op["op"] in ("add", "remove"))
    res = {
        "violations": run.viol,
        "digest": S.digest(),
        "addr_digest": S.addr_digest(),
        "events": S.n_events,
        "vtime": round(S.now, 6),
        "fired": dict(S.fired),
        "probes": dict(S.probes, crev_calls=run.n_crev, crev_none=run.n_none, pareto_checks=run.n_pareto, add_remove_steps=n_mut),
        "doc": doc,
        "tail": S.tail[-20:] if run.viol else [],
        "nontrivial": bool(run.models) and (n_mut >= 1 or run.n_crev >= 1),
        "state_keys": sorted(run.state_keys),
    }
    if full_trace:
        res["trace"] = S.full_trace
    return res


def job_execute(doc):
    return run_scenario(doc)


def job_trace(doc):
    return run_scenario(doc, full_trace=True)


# ======================================================================================
# parent side
# ======================================================================================
def _rename(f, ren):
    if f[0] == "var":
        return ("var", ren.get(f[1], f[1]))
    return (f[0],) + tuple(_rename(x, ren) if isinstance(x, tuple) else x for x in f[1:])


def _atoms_of_text(t):
    import re

    return [x for x in re.findall(r"[A-Za-z][A-Za-z0-9_]*", t) if x not in ("Top", "Bottom")]


def _world_formula(sig, bits):
    return ("and",) + tuple(("var", a) if b == "1" else ("not", ("var", a)) for a, b in zip(sig, bits)) if len(sig) > 1 else (("var", sig[0]) if bits == "1" else ("not", ("var", sig[0])))


def _set_formula(sig, worlds):
    fs = [_world_formula(sig, w) for w in sorted(worlds)]
    return fs[0] if len(fs) == 1 else ("or",) + tuple(fs)


def _gen_world_set_cond(g, sig):
    """(V | V or F) for disjoint world sets V, F: verified exactly in V, falsified exactly in F."""
    from sim.gen import workload as W

    ws = [format(i, "0%db" % len(sig)) for i in range(2 ** len(sig))]
    g.shuffle(ws)
    nv = g.choice([1, 1, 2])
    nf = g.randint(1, max(1, min(4, len(ws) - nv)))
    V, F = ws[:nv], ws[nv : nv + nf]
    return W.cond_text((_set_formula(sig, V), _set_formula(sig, V + F)))


def _gen_chain(g, sig, k):
    """Doubling chain: the only verifying world of conditional i falsifies all earlier conditionals,
    so gamma- has to grow like 1, 2, 4, 8, ..."""
    from sim.gen import workload as W

    ws = [format(i, "0%db" % len(sig)) for i in range(2 ** len(sig))]
    g.shuffle(ws)
    U, E = ws[:k], ws[k : 2 * k]
    out = []
    for i in range(k):
        V = [U[i]]
        F = U[i + 1 :] + [E[i]]
        out.append(W.cond_text((_set_formula(sig, V), _set_formula(sig, V + F))))
    return out


def _gen_cond(g, sig):
    from sim.gen import workload as W

    r = g.random()
    if len(sig) >= 2 and r > 0.92:
        return _gen_world_set_cond(g, sig)
    if r < 0.5:
        c = W.gen_conditional(g, sig, "literal")
    elif r < 0.8:
        c = W.gen_conditional(g, sig, "mixed")
    elif r < 0.88:
        a = W.gen_literal(g, sig)
        c = (a, a)  # unfalsifiable
    elif r < 0.93:
        c = (("top",), W.gen_literal(g, sig))  # unfalsifiable
    elif r < 0.95:
        c = (("bot",), W.gen_literal(g, sig))  # cannot be accepted
    elif r < 0.97:
        a = W.gen_literal(g, sig)
        c = (("not", a), a) if g.random() < 0.5 else (("and", a, ("not", a)), W.gen_literal(g, sig))  # unverifiable
    else:
        c = W.gen_conditional(g, sig, "compound")
    return W.cond_text(c)


def generate(prop, verif_seed, idx, tier="quick", cls=None):
    from sim.gen import workload as W

    sseed = derive(verif_seed, prop, idx)
    scen_idx = idx
    g = stream(sseed, "gen")
    n_atoms = g.choice([1, 2, 2, 3, 3, 3, 4, 4, 5])
    sig = W.ATOMS[:n_atoms]
    nw = 2**n_atoms
    if cls is None:
        cls = g.choices(["incremental", "revision", "mixed", "two_priors", "rebind", "interrupt", "chain"], weights=[22, 22, 18, 12, 12, 9, 5])[0]
    if cls == "chain":
        n_atoms = g.choice([3, 4])
        sig = W.ATOMS[:n_atoms]
        nw = 2**n_atoms
    priors = []
    psigs = []
    for pn in range(2 if cls == "two_priors" else 1):
        k = g.choices(["custom", "zero", "system-z", "crep"], weights=[45, 20, 25, 10])[0]
        psig = list(sig)
        if pn == 1 and g.random() < 0.6 and n_atoms >= 2:
            # the second prior lists the same atoms in another order (or fewer of them)
            g.shuffle(psig)
            if n_atoms >= 3 and g.random() < 0.3:
                psig = psig[:-1]
        psigs.append(psig)
        pw = 2 ** len(psig)
        if cls == "chain":
            k = "zero" if g.random() < 0.7 else "custom"
        if k == "custom":
            mx = g.choice([1, 2, 4, 9])
            keys_ = [format(i, "0%db" % len(psig)) for i in range(pw)]
            if g.random() < 0.3:
                g.shuffle(keys_)  # a rank table that is not written in binary counting order
            p = {"kind": "custom", "ranks": {w: g.randrange(0, mx + 1) for w in keys_}}
        elif k == "zero":
            p = {"kind": "zero"}
        else:
            s2, conds = W.gen_base(g, want="consistent", max_conds=4, style=g.choice(["literal", "mixed"]), exact_atoms=len(psig))
            # gen_base uses the first atoms of the alphabet: rename them onto this prior's signature
            ren = dict(zip(s2, psig))
            conds = [(_rename(b, ren), _rename(a, ren)) for b, a in conds]
            p = {"kind": k, "base": W.base_text(psig, conds)}
            if k == "system-z":
                p["extended"] = g.choice([None, None, True])
        if psig != list(sig):
            p["sig"] = psig
        priors.append(p)
    ops = []
    deep_later = {}
    live = {}  # model index -> set of live idx
    ever = {}
    n_models = g.choice([1, 1, 2]) if cls != "two_priors" else 2
    for m in range(n_models):
        n0 = g.randint(0, 3 if n_atoms >= 4 else 4)
        msig = psigs[m % len(priors)]
        conds = [[j + 1, _gen_cond(g, msig)] for j in range(n0)]
        if cls == "chain" and m == 0:
            conds = [[j + 1, t] for j, t in enumerate(_gen_chain(g, msig, 4 if len(msig) == 3 or g.random() < 0.6 else 5))]
        elif len(msig) >= 2 and g.random() < 0.08:
            # two deep conditionals that differ only below nesting depth 5 (first one now, the other added later)
            pair = [W.cond_text(c) for c in W.gen_deep_pair(g, msig)]
            conds = conds[:2] + [[len(conds[:2]) + 1, pair[0]]]
            deep_later[m] = pair[1]
        if m == 1 and conds and ops and ops[0]["conds"] and g.random() < 0.5:
            # the same conditional text compiled over both priors
            txt = ops[0]["conds"][0][1]
            if all(tok in msig for tok in _atoms_of_text(txt)):
                conds[0][1] = txt
        ops.append({"op": "new_model", "prior": m % len(priors), "conds": conds})
        live[m] = {c[0] for c in conds}
        ever[m] = set(live[m])
    n_ops = g.randint(3, 12)
    last_fixed = {}
    last_crev = {}
    if cls == "chain":
        for gpz in (True, False):
            for um in (False, True):
                ops.append({"op": "crev", "model": 0, "gpz": gpz, "use_model": um})
        n_ops = g.randint(0, 3)
    for m_, t_ in deep_later.items():
        # revise by the first deep conditional, swap it for its twin, revise again (same prior object)
        ops.append({"op": "crev", "model": m_, "gpz": True, "use_model": g.random() < 0.5})
        idx_ = max(live[m_])
        ops.append({"op": "remove", "model": m_, "idx": idx_})
        ops.append({"op": "add", "model": m_, "idx": idx_ + 1, "cond": t_})
        live[m_].discard(idx_)
        live[m_].add(idx_ + 1)
        ever[m_].add(idx_ + 1)
        ops.append({"op": "crev", "model": m_, "gpz": True, "use_model": g.random() < 0.5})
    if cls == "rebind":
        # query -> change the model under the same indices -> the same query again:
        # anything memoised per model / per index set must not answer for the changed model
        m = 0
        msig = psigs[0]
        if not live[m]:
            ops.append({"op": "add", "model": m, "idx": 1, "cond": _gen_cond(g, msig)})
            live[m].add(1)
            ever[m].add(1)
        q = {"op": "crev", "model": m, "gpz": g.random() < 0.7, "use_model": g.random() < 0.85}
        ids = sorted(live[m])
        if g.random() < 0.25:
            q["fixed_minus"] = {str(g.choice(ids)): g.choice([0, 1, 2, 3])}
        ops.append(dict(q))
        for _ in range(g.randint(1, 2)):
            j = g.choice(sorted(live[m]))
            ops.append({"op": "remove", "model": m, "idx": j})
            if g.random() < 0.3:
                ops.append({"op": "crev", "model": m, "gpz": q["gpz"], "use_model": q["use_model"]})
            ops.append({"op": "add", "model": m, "idx": j, "cond": _gen_cond(g, msig)})
        ops.append(dict(q))
        ops.append({"op": "compile_check", "model": m})
        n_ops = g.randint(0, 3)
    for _ in range(n_ops):
        m = g.randrange(n_models)
        r = g.random()
        w_inc = {"incremental": 0.7, "revision": 0.25, "mixed": 0.5, "two_priors": 0.5, "rebind": 0.5, "interrupt": 0.4, "chain": 0.3}[cls]
        if r < w_inc:
            if live[m] and g.random() < 0.4:
                idx = g.choice(sorted(live[m])) if g.random() < 0.9 else g.randint(1, 8)
                ops.append({"op": "remove", "model": m, "idx": idx})
                live[m].discard(idx)
            elif len(live[m]) < (4 if n_atoms >= 4 else 5):
                dead = sorted(ever[m] - live[m])
                if dead and g.random() < 0.5:
                    idx = g.choice(dead)  # re-use a removed index with a different conditional
                else:
                    idx = max(ever[m], default=0) + 1
                ops.append({"op": "add", "model": m, "idx": idx, "cond": _gen_cond(g, psigs[m % len(priors)])})
                live[m].add(idx)
                ever[m].add(idx)
            else:
                ops.append({"op": "compile_check", "model": m})
        elif r < w_inc + 0.08:
            pr = g.randrange(len(priors))
            ops.append({"op": "rank_prior", "prior": pr, "w": format(g.randrange(2 ** len(psigs[pr])), "0%db" % len(psigs[pr]))})
        elif r < w_inc + 0.14:
            ops.append({"op": "compile_check", "model": m})
        else:
            op = {"op": "crev", "model": m, "gpz": g.random() < 0.6, "use_model": g.random() < 0.6}
            ids = sorted(live[m])
            if m in last_crev and g.random() < 0.35:
                # the same question again (settings of the previous c_revision on this model), now on
                # whatever the model has become: state memoised per model must not answer for it
                prev = last_crev[m]
                op = {k: v for k, v in prev.items() if k not in ("fixed_minus", "fixed_plus")}
                for k in ("fixed_minus", "fixed_plus"):
                    if prev.get(k) and all(int(x) in live[m] for x in prev[k]):
                        op[k] = dict(prev[k])
                ops.append(op)
                last_crev[m] = op
                continue
            if ids and g.random() < 0.45:
                if m in last_fixed and g.random() < 0.5 and set(last_fixed[m]) <= set(ids):
                    keys = last_fixed[m]  # same fixed indices, other values
                else:
                    keys = g.sample(ids, g.randint(1, min(2, len(ids))))
                op["fixed_minus"] = {str(k): g.choice([0, 1, 2, 3, 5]) for k in keys}
                last_fixed[m] = keys
            if ids and g.random() < 0.2:
                keys = g.sample(ids, 1)
                op["fixed_plus"] = {str(k): g.choice([0, 0, 1, 2]) for k in keys}
            ops.append(op)
            last_crev[m] = op
    for op in ops:
        if op["op"] in ("add", "remove") and g.random() < (0.7 if cls == "rebind" else 0.4):
            op["quiet"] = True
    doc = {"property": prop, "seed": sseed, "idx": scen_idx, "class": cls, "knobs": ({"loglevel": "INFO"} if g.random() < 0.1 else {}), "sig": sig, "priors": priors, "ops": ops, "faults": []}
    if cls == "interrupt":
        del doc["faults"]
        doc["fault_plan"] = {"n": g.choice([1, 2, 3])}
        for op in ops:
            if op["op"] == "add":
                # if this add is interrupted, the caller rolls it back (remove the index) and goes on
                op["rollback"] = True
    return doc


def canonical(doc):
    d = {k: doc.get(k) for k in ("property", "sig", "priors", "ops", "faults")}
    return hashlib.sha256(json.dumps(d, sort_keys=True).encode()).hexdigest()


SPECS = {
    "C19": {
        "n_quick": 480,
        "n_thorough": 12000,
        "recheck": 8,
        "rule": (
            "scenario = 1-2 prior rankings over 1-5 atoms (custom random ranks, all-zero, lazily ranked System Z object, c-representation object) + 1-2 incremental models + "
            "3-12 operations from {add (literal fast path / compound solver fallback / Top / Bottom / unfalsifiable conditional; new index or a removed index re-used with a different "
            "conditional), remove, compile_check, rank a prior world in between, c_revision(gamma_plus_zero, fixed gamma- / gamma+ maps, with or without model=)}. "
            "Oracle after every add/remove: model.to_compilation() == compile_alt_fast == RefRev (by definition); compile_alt too at compile_check and at the end; every c_revision: never raises, "
            "parameters are non-negative ints respecting fixed values, the revised ranking accepts every conditional (by enumeration), None only if the direct world-level encoding is "
            "infeasible, and with gamma+ = 0 no feasible vector dominates the returned gamma-. Distinct = distinct canonical JSON; non-trivial = a model exists and at least one add/remove or c_revision ran."
        ),
        "state_measure": "distinct (multiset of current conditional texts, number of conditionals) per model after each step",
        "must_reach": ["crev_calls", "crev_none", "pareto_checks", "add_remove_steps", "csp_equivalence_checks", "interrupt"],
        "reach_in_quick": True,
        "components": {
            "real": ["inference/c_revision.py, c_revision_model.py, c_inference.py (minima encoding), preocf.py, parser/* (current working tree of /repo)", "z3 Optimize (Pareto), pysmt: called for real"],
            "stub": ["virtual clock and solver-call wrappers (counting only: this property has no time or fault dimension)", "Conditional.__hash__ -> seeded"],
        },
        "assumptions": [
            "RefRev (world enumeration with own formula evaluator) is the specification of the compilation; z3 as a plain decision procedure over the direct encoding OR_{w in V_i} AND_{w' in F_i} k*(w) < k*(w') decides feasibility and domination",
            "the prior's ranks are read from a separately constructed, fully computed twin of the prior object (a defect of the ranking object itself is C16's subject)",
            "a parameter missing from the returned dict is read as 0 (counted by a probe)",
            "only the history dimension (add/remove/re-add sequences, interleaved lazy ranking, repeated c_revision calls on cached state) is decided; priors, conditionals and fixed maps are sampled workload; no fault, clock or schedule exists in this property and none is invented",
        ],
    }
}


def jobs(prop, verif_seed, n, tier):
    for i in range(n):
        yield {"id": i, "engine": NAME, "func": "execute", "doc": generate(prop, verif_seed, i, tier), "wall_cap": 180}


def sample_view(res):
    d = res["doc"]
    return {"class": d.get("class"), "signature": d["sig"], "priors": d["priors"], "ops": d["ops"]}


def features(doc, v):
    f = {"class": v["class"]}
    o = v.get("op")
    ops = doc["ops"]
    if o is not None and 0 <= o < len(ops):
        op = ops[o]
        f["opkind"] = op["op"]
        if op["op"] == "crev":
            f["gpz"] = bool(op.get("gpz"))
            f["use_model"] = bool(op.get("use_model"))
            f["fixed_minus"] = bool(op.get("fixed_minus"))
            f["fixed_plus"] = bool(op.get("fixed_plus"))
            f["any_fixed"] = bool(op.get("fixed_minus")) or bool(op.get("fixed_plus"))
    f["prior_kinds"] = sorted({p["kind"] for p in doc["priors"]})
    d = v.get("detail") or {}
    if "rejected" in d:
        f["n_rejected"] = len(d["rejected"])
    texts = []
    for op in ops:
        if op["op"] == "new_model":
            texts += [t for _, t in op["conds"]]
        elif op["op"] == "add":
            texts.append(op["cond"])
    f["n_conditionals"] = len(texts)
    f["fault_kinds"] = sorted({x["kind"] for x in doc.get("faults") or []})
    f["has_unfalsifiable_shape"] = any(_unfalsifiable_shape(t) for t in texts)
    return f


def _unfalsifiable_shape(t):
    body = t.strip()[1:-1]
    if "|" not in body:
        return False
    b, a = body.split("|", 1)
    return b.strip() == a.strip() or b.strip() == "Top"


def shrink_candidates(doc):
    doc = {k: v for k, v in doc.items() if k != "fault_plan"}
    doc.setdefault("faults", [])
    if doc["faults"]:
        for i in range(len(doc["faults"])):
            yield dict(doc, faults=doc["faults"][:i] + doc["faults"][i + 1 :])
        # operations carry the fault addresses: with faults present only fault-free suffix operations are dropped
        last = max(f["op"] for f in doc["faults"])
        for i in range(len(doc["ops"]) - 1, last, -1):
            if doc["ops"][i]["op"] != "new_model":
                yield dict(doc, ops=doc["ops"][:i] + doc["ops"][i + 1 :])
        return
    ops = doc["ops"]
    # drop operations (keeping model numbering consistent: new_model ops are only dropped when unused)
    used = {op.get("model") for op in ops if "model" in op}
    mcount = -1
    for i, op in enumerate(ops):
        if op["op"] == "new_model":
            mcount += 1
            if mcount in used:
                continue
            rest = []
            for o in ops[:i] + ops[i + 1 :]:
                if "model" in o and o["model"] > mcount:
                    o = dict(o, model=o["model"] - 1)
                rest.append(o)
            yield dict(doc, ops=rest)
        else:
            yield dict(doc, ops=ops[:i] + ops[i + 1 :])
    # drop conditionals from new_model
    for i, op in enumerate(ops):
        if op["op"] == "new_model":
            for j in range(len(op["conds"])):
                yield dict(doc, ops=ops[:i] + [dict(op, conds=op["conds"][:j] + op["conds"][j + 1 :])] + ops[i + 1 :])
        if op["op"] == "crev":
            for k in ("fixed_minus", "fixed_plus"):
                if op.get(k):
                    yield dict(doc, ops=ops[:i] + [{a: b for a, b in op.items() if a != k}] + ops[i + 1 :])
                    for key in list(op[k]):
                        if len(op[k]) > 1:
                            yield dict(doc, ops=ops[:i] + [dict(op, **{k: {a: b for a, b in op[k].items() if a != key}})] + ops[i + 1 :])
            if op.get("use_model"):
                yield dict(doc, ops=ops[:i] + [dict(op, use_model=False)] + ops[i + 1 :])
    # simpler conditionals
    from sim.models.evalformula import simpler_conditionals

    for i, op in enumerate(ops):
        if op["op"] == "new_model":
            for j, (idx_, t) in enumerate(op["conds"]):
                for t2 in simpler_conditionals(t, limit=3):
                    yield dict(doc, ops=ops[:i] + [dict(op, conds=op["conds"][:j] + [[idx_, t2]] + op["conds"][j + 1 :])] + ops[i + 1 :])
        elif op["op"] == "add":
            for t2 in simpler_conditionals(op["cond"], limit=3):
                yield dict(doc, ops=ops[:i] + [dict(op, cond=t2)] + ops[i + 1 :])
    # simpler priors
    for pi, p in enumerate(doc["priors"]):
        if p["kind"] != "zero":
            yield dict(doc, priors=doc["priors"][:pi] + [{"kind": "zero"}] + doc["priors"][pi + 1 :])
        if p["kind"] == "custom":
            mx = max(p["ranks"].values())
            if mx > 1:
                yield dict(doc, priors=doc["priors"][:pi] + [dict(p, ranks={w: min(r, mx // 2) for w, r in p["ranks"].items()})] + doc["priors"][pi + 1 :])
    if len(doc["priors"]) > 1 and not any(op.get("prior") == len(doc["priors"]) - 1 for op in ops):
        yield dict(doc, priors=doc["priors"][:-1])
